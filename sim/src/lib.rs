pub fn placeholder() {}
