//! simcore — shared pieces of the deterministic simulators (see /verif/DESIGN.md §2).
//!
//! * `rng`       one-integer PRNG (SplitMix64); every choice of a run is drawn from it
//! * `interpose` libc seams: `getrandom` (hash keys) and `clock_gettime` (wall/monotonic clock)
//! * `par`       worker processes: run i of a batch depends only on (root seed, i), never on the worker count
//! * `report`    evidence files, replay files, known-findings matching, the exit-code contract

pub mod interpose;
pub mod lsp;
pub mod par;
pub mod report;
pub mod rng;

pub use rng::{mix, Rng};

/// Root of everything the framework writes.
pub const VERIF_ROOT: &str = "/verif";

/// Budget tier.
#[derive(Clone, Copy, PartialEq, Eq, Debug)]
pub enum Tier {
    Quick,
    Thorough,
}

impl Tier {
    pub fn as_str(self) -> &'static str {
        match self {
            Tier::Quick => "quick",
            Tier::Thorough => "thorough",
        }
    }
    pub fn parse(s: &str) -> Option<Tier> {
        match s {
            "quick" => Some(Tier::Quick),
            "thorough" => Some(Tier::Thorough),
            _ => None,
        }
    }
}

/// Harness error: never reported as a violation (exit 2).
pub fn harness_error(msg: &str) -> ! {
    eprintln!("HARNESS-ERROR: {msg}");
    std::process::exit(2);
}

/// Simple argv helper: `--key value` lookup.
pub fn arg_value(args: &[String], key: &str) -> Option<String> {
    args.iter().position(|a| a == key).and_then(|i| args.get(i + 1).cloned())
}

pub fn arg_flag(args: &[String], key: &str) -> bool {
    args.iter().any(|a| a == key)
}

/// Root seed: `--seed`, else `VERIF_SEED`, else 1.
pub fn root_seed(args: &[String]) -> u64 {
    arg_value(args, "--seed")
        .or_else(|| std::env::var("VERIF_SEED").ok())
        .and_then(|s| s.trim().parse::<u64>().ok())
        .unwrap_or(1)
}

/// Tier: `--tier`, else `VERIF_TIER`, else quick.
pub fn tier(args: &[String]) -> Tier {
    arg_value(args, "--tier")
        .or_else(|| std::env::var("VERIF_TIER").ok())
        .and_then(|s| Tier::parse(s.trim()))
        .unwrap_or(Tier::Quick)
}

/// 64-bit FNV-1a, used for fingerprints of interleavings / workloads (never for decisions).
pub fn fnv(data: &[u8]) -> u64 {
    let mut h: u64 = 0xcbf29ce484222325;
    for b in data {
        h ^= *b as u64;
        h = h.wrapping_mul(0x100000001b3);
    }
    h
}

pub fn fnv_add(h: u64, data: &[u8]) -> u64 {
    let mut h = h;
    for b in data {
        h ^= *b as u64;
        h = h.wrapping_mul(0x100000001b3);
    }
    h
}

/// Budget scaling for self-tests: `VERIF_BUDGET_PERMILLE=100` runs a tenth of every batch (default 1000).
pub fn scaled(n: u64) -> u64 {
    let p = std::env::var("VERIF_BUDGET_PERMILLE").ok().and_then(|s| s.parse::<u64>().ok()).unwrap_or(1000);
    (n.saturating_mul(p) / 1000).max(1)
}
