//! Worker processes and simulated process instances.
//!
//! A batch is a set of run indices `0..n`. Run `i` is a pure function of `(root seed, i)`; workers only partition the
//! index set (`i % count == index`), so the explored set and every verdict are independent of the worker count.

use serde_json::Value;
use std::io::Read;
use std::process::{Command, Stdio};

#[derive(Clone, Copy, Debug)]
pub struct WorkerSpec {
    pub index: u64,
    pub count: u64,
}

pub fn worker_spec(args: &[String]) -> Option<WorkerSpec> {
    let v = crate::arg_value(args, "--worker")?;
    let (a, b) = v.split_once('/')?;
    Some(WorkerSpec { index: a.parse().ok()?, count: b.parse().ok()? })
}

pub fn nworkers(args: &[String]) -> u64 {
    crate::arg_value(args, "--workers")
        .or_else(|| std::env::var("VERIF_WORKERS").ok())
        .and_then(|s| s.parse::<u64>().ok())
        .filter(|n| *n > 0)
        .unwrap_or_else(|| std::thread::available_parallelism().map(|n| n.get() as u64).unwrap_or(4))
}

const MARK: &str = "WORKER-RESULT ";

/// Called by a worker as its last action.
pub fn emit_worker_result(v: &Value) {
    println!("{MARK}{v}");
}

/// Re-execute the current binary `count` times with `--worker k/count` appended; collect each worker's result.
/// A worker that dies or prints no result is a harness error (exit 2), never a violation.
pub fn run_workers(args: &[String], count: u64) -> Vec<Value> {
    let exe = std::env::current_exe().unwrap_or_else(|e| crate::harness_error(&format!("current_exe: {e}")));
    let mut children = Vec::new();
    for k in 0..count {
        let mut cmd = Command::new(&exe);
        cmd.args(&args[1..]).arg("--worker").arg(format!("{k}/{count}"));
        // Every run is a fresh thread; keep glibc from mapping/unmapping fresh arenas and big blocks for each of them
        // (pure performance: ~3x throughput on 16 workers; no effect on behaviour).
        cmd.env("MALLOC_ARENA_MAX", "1")
            .env("MALLOC_MMAP_THRESHOLD_", "268435456")
            .env("MALLOC_TRIM_THRESHOLD_", "1073741824");
        cmd.stdin(Stdio::null()).stdout(Stdio::piped()).stderr(Stdio::inherit());
        let child = cmd.spawn().unwrap_or_else(|e| crate::harness_error(&format!("spawn worker: {e}")));
        children.push(child);
    }
    let mut handles = Vec::new();
    for mut child in children {
        handles.push(std::thread::spawn(move || {
            let mut out = String::new();
            if let Some(mut so) = child.stdout.take() {
                let _ = so.read_to_string(&mut out);
            }
            let st = child.wait();
            (out, st)
        }));
    }
    let mut results = Vec::new();
    for (k, h) in handles.into_iter().enumerate() {
        let (out, st) = h.join().unwrap_or_else(|_| crate::harness_error("worker reader thread panicked"));
        let ok = st.as_ref().map(|s| s.success()).unwrap_or(false);
        let line = out.lines().rev().find(|l| l.starts_with(MARK));
        match (ok, line) {
            (true, Some(l)) => match serde_json::from_str::<Value>(&l[MARK.len()..]) {
                Ok(v) => results.push(v),
                Err(e) => crate::harness_error(&format!("worker {k}: unparsable result: {e}")),
            },
            _ => crate::harness_error(&format!(
                "worker {k} failed (status {:?}); last output: {}",
                st.ok().and_then(|s| s.code()),
                out.lines().rev().take(5).collect::<Vec<_>>().join(" | ")
            )),
        }
    }
    results
}

/// Run `f` as a simulated process instance: a fresh OS thread whose hash keys (and optionally clock) come from the
/// run's seed. A panic inside is returned as `Err(message)` — it is an observation about the code under test.
pub fn instance<T: Send + 'static>(
    hash_seed: u64,
    clock_origin_ns: Option<i128>,
    f: impl FnOnce() -> T + Send + 'static,
) -> Result<T, String> {
    let h = std::thread::Builder::new()
        .stack_size(8 << 20)
        .spawn(move || {
            crate::interpose::enter_instance(hash_seed, clock_origin_ns);
            f()
        })
        .unwrap_or_else(|e| crate::harness_error(&format!("thread spawn: {e}")));
    match h.join() {
        Ok(v) => Ok(v),
        Err(p) => Err(panic_message(&p)),
    }
}

/// Like [`instance`], with a wall-clock watchdog for code that may never return (a synchronous infinite loop inside one
/// poll). `Err("WATCHDOG...")` means the instance did not finish in time; its thread is abandoned (it cannot be killed),
/// so the caller should wind down the process soon. The limit is generous and a hit is re-confirmed by the parent in a
/// dedicated process before it counts.
pub fn instance_timeout<T: Send + 'static>(
    hash_seed: u64,
    clock_origin_ns: Option<i128>,
    timeout: std::time::Duration,
    f: impl FnOnce() -> T + Send + 'static,
) -> Result<T, String> {
    let (tx, rx) = std::sync::mpsc::channel();
    let h = std::thread::Builder::new()
        .stack_size(8 << 20)
        .spawn(move || {
            crate::interpose::enter_instance(hash_seed, clock_origin_ns);
            let r = std::panic::catch_unwind(std::panic::AssertUnwindSafe(f));
            let _ = tx.send(match r {
                Ok(v) => Ok(v),
                Err(p) => Err(panic_message(&p)),
            });
        })
        .unwrap_or_else(|e| crate::harness_error(&format!("thread spawn: {e}")));
    match rx.recv_timeout(timeout) {
        Ok(r) => {
            let _ = h.join();
            r
        }
        Err(_) => Err(format!("WATCHDOG: no result within {} s of wall-clock time", timeout.as_secs())),
    }
}

pub fn is_watchdog(e: &str) -> bool {
    e.starts_with("WATCHDOG")
}

pub fn panic_message(p: &Box<dyn std::any::Any + Send>) -> String {
    if let Some(s) = p.downcast_ref::<&str>() {
        s.to_string()
    } else if let Some(s) = p.downcast_ref::<String>() {
        s.clone()
    } else {
        "panic (non-string payload)".to_string()
    }
}

/// Silence the default panic printer (panics of the code under test are captured, not printed), but remember the
/// location of the last panic per thread so that reports can name it.
pub fn install_quiet_panic_hook() {
    std::panic::set_hook(Box::new(|info| {
        let loc = info.location().map(|l| format!("{}:{}", l.file(), l.line())).unwrap_or_default();
        LAST_PANIC_LOC.with(|c| *c.borrow_mut() = loc);
    }));
}

thread_local! {
    pub static LAST_PANIC_LOC: std::cell::RefCell<String> = const { std::cell::RefCell::new(String::new()) };
}

pub fn last_panic_location() -> String {
    LAST_PANIC_LOC.with(|c| c.borrow().clone())
}
