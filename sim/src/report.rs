//! Output contract (DESIGN.md §2.3): evidence file, replay files, known findings, exit code.

use serde_json::{json, Value};
use std::collections::BTreeMap;
use std::path::PathBuf;

#[derive(Clone, Debug)]
pub struct Violation {
    pub property: String,
    /// Violation class (stable across minimisation), e.g. `stale-overwrite`.
    pub class: String,
    /// Normalised minimal failing case; matched against known_findings.json.
    pub fingerprint: String,
    pub seed: u64,
    pub detail: String,
    /// Self-contained replay document (explicit workload + decision trace).
    pub replay: Value,
}

#[derive(Clone, Debug)]
pub struct Finding {
    pub property: String,
    pub fingerprint: String,
    pub what_fails: String,
    pub status: String,
}

pub fn findings_path() -> PathBuf {
    PathBuf::from(crate::VERIF_ROOT).join("known_findings.json")
}

/// Read-only at run time; a missing file means "no known findings".
pub fn load_findings() -> Vec<Finding> {
    let p = findings_path();
    let Ok(text) = std::fs::read_to_string(&p) else { return Vec::new() };
    let v: Value = serde_json::from_str(&text)
        .unwrap_or_else(|e| crate::harness_error(&format!("known_findings.json does not parse: {e}")));
    let mut out = Vec::new();
    for f in v["findings"].as_array().cloned().unwrap_or_default() {
        out.push(Finding {
            property: f["property"].as_str().unwrap_or("").to_string(),
            fingerprint: f["fingerprint"].as_str().unwrap_or("").to_string(),
            what_fails: f["what_fails"].as_str().unwrap_or("").to_string(),
            status: f["status"].as_str().unwrap_or("open").to_string(),
        });
    }
    out
}

pub struct Outcome {
    pub property: String,
    pub tier: crate::Tier,
    pub seed: u64,
    pub level: String,
    pub coverage: Value,
    pub assumptions: Vec<String>,
    pub wall_s: f64,
    pub violations: Vec<Violation>,
    /// optional: how often each fingerprint was observed before de-duplication (for the KNOWN-FINDING lines)
    pub occurrences: BTreeMap<String, u64>,
}

/// Write a replay file and return its path.
pub fn write_replay(v: &Violation) -> String {
    let dir = PathBuf::from(crate::VERIF_ROOT).join("replays").join(&v.property);
    let _ = std::fs::create_dir_all(&dir);
    let name = format!("{}-{}-{:016x}.json", v.class, v.seed, crate::fnv(v.fingerprint.as_bytes()));
    let path = dir.join(name);
    let doc = json!({
        "property": v.property,
        "class": v.class,
        "fingerprint": v.fingerprint,
        "seed": v.seed,
        "detail": v.detail,
        "replay": v.replay,
    });
    if let Err(e) = std::fs::write(&path, serde_json::to_string_pretty(&doc).unwrap_or_default()) {
        crate::harness_error(&format!("cannot write replay file {}: {e}", path.display()));
    }
    path.to_string_lossy().to_string()
}

/// Apply known findings, write replays + evidence, print the contract lines and exit.
pub fn finish(mut o: Outcome) -> ! {
    let findings = load_findings();
    let open: Vec<&Finding> =
        findings.iter().filter(|f| f.property == o.property && f.status == "open").collect();
    let mut known_hits: BTreeMap<String, u64> = BTreeMap::new();
    let mut fresh: Vec<Violation> = Vec::new();
    for v in o.violations.drain(..) {
        if open.iter().any(|f| f.fingerprint == v.fingerprint) {
            *known_hits.entry(v.fingerprint.clone()).or_insert(0) += 1;
        } else {
            fresh.push(v);
        }
    }
    for f in &open {
        let n = o.occurrences.get(&f.fingerprint).copied().unwrap_or_else(|| known_hits.get(&f.fingerprint).copied().unwrap_or(0));
        println!(
            "KNOWN-FINDING: property={} {} [fingerprint {}; observed {} time(s) in this run]",
            f.property, f.what_fails, f.fingerprint, n
        );
    }
    // One replay per distinct fingerprint (the first = lowest run index, callers sort).
    let mut seen: BTreeMap<String, String> = BTreeMap::new();
    let mut lines = Vec::new();
    for v in &fresh {
        if seen.contains_key(&v.fingerprint) {
            continue;
        }
        let path = write_replay(v);
        seen.insert(v.fingerprint.clone(), path.clone());
        lines.push(format!("VIOLATION property={} replay={}", v.property, path));
        eprintln!("  class={} seed={} fingerprint={}\n  {}", v.class, v.seed, v.fingerprint, v.detail);
    }
    let mut cov = o.coverage.clone();
    if let Some(m) = cov.as_object_mut() {
        m.insert(
            "known_findings_observed".into(),
            json!(known_hits.iter().map(|(k, n)| json!({"fingerprint": k, "times": n})).collect::<Vec<_>>()),
        );
        m.insert("new_violation_fingerprints".into(), json!(seen.keys().collect::<Vec<_>>()));
    }
    let ev = json!({
        "property_id": o.property,
        "tier": o.tier.as_str(),
        "seed": o.seed,
        "level": o.level,
        "coverage": cov,
        "assumptions": o.assumptions,
        "wall_s": (o.wall_s * 1000.0).round() / 1000.0,
        "violations": fresh.len(),
    });
    let dir = PathBuf::from(crate::VERIF_ROOT).join("evidence");
    let _ = std::fs::create_dir_all(&dir);
    let path = dir.join(format!("{}.json", o.property));
    if let Err(e) = std::fs::write(&path, serde_json::to_string_pretty(&ev).unwrap_or_default() + "\n") {
        crate::harness_error(&format!("cannot write evidence {}: {e}", path.display()));
    }
    for l in &lines {
        println!("{l}");
    }
    if lines.is_empty() {
        println!(
            "OK property={} tier={} seed={} evaluations={} wall_s={:.1}",
            o.property,
            o.tier.as_str(),
            o.seed,
            ev["coverage"]["evaluations"],
            o.wall_s
        );
        std::process::exit(0);
    }
    std::process::exit(1);
}

/// Merge helper: add numeric fields of `b` into `a` (objects of counters).
pub fn add_counters(a: &mut BTreeMap<String, u64>, b: &Value) {
    if let Some(m) = b.as_object() {
        for (k, v) in m {
            if let Some(n) = v.as_u64() {
                *a.entry(k.clone()).or_insert(0) += n;
            }
        }
    }
}
