//! libc seams owned by the simulator.
//!
//! `std` obtains the `RandomState` hash keys of a thread from libc's `getrandom`, and the wall / monotonic clocks
//! from `clock_gettime`. Both references are resolved at link time to the definitions below, so code under test that
//! runs inside this binary (the real compiler, the real language server) gets its hash keys and its time from the
//! run's seed. std draws the keys once per thread, therefore a *simulated process instance* is one fresh OS thread
//! that calls [`enter_instance`] first.
//!
//! Threads that never call `enter_instance` (the harness itself) see the real syscalls.

use std::cell::Cell;

thread_local! {
    static HASH_STATE: Cell<Option<u64>> = const { Cell::new(None) };
    /// (origin in ns since the epoch, ns advanced per reading, readings so far)
    static CLOCK: Cell<Option<(i128, i128, i128)>> = const { Cell::new(None) };
    /// process id reported to the code under test on this thread
    static FAKE_PID: Cell<Option<i32>> = const { Cell::new(None) };
}

/// Install the key stream (and optionally a simulated clock) of the simulated process instance running on this thread.
pub fn enter_instance(hash_seed: u64, clock_origin_ns: Option<i128>) {
    // every simulated process instance has its own pid (derived from its seed), like a real process would
    FAKE_PID.with(|p| p.set(Some(1000 + (hash_seed % 4_000_000) as i32)));
    HASH_STATE.with(|h| h.set(Some(hash_seed)));
    CLOCK.with(|c| c.set(clock_origin_ns.map(|o| (o, 1_000_000, 0))));
}

/// Number of clock readings the instance made (reach probe).
pub fn clock_readings() -> i128 {
    CLOCK.with(|c| c.get().map(|t| t.2).unwrap_or(0))
}

#[repr(C)]
pub struct Timespec {
    tv_sec: i64,
    tv_nsec: i64,
}

/// # Safety
/// Called by libc users with a valid buffer.
#[no_mangle]
pub unsafe extern "C" fn getrandom(buf: *mut u8, len: usize, flags: u32) -> isize {
    let st = HASH_STATE.try_with(|h| h.get()).ok().flatten();
    match st {
        Some(mut s) => {
            for i in 0..len {
                s = s.wrapping_mul(6364136223846793005).wrapping_add(1442695040888963407);
                *buf.add(i) = (s >> 33) as u8;
            }
            let _ = HASH_STATE.try_with(|h| h.set(Some(s)));
            len as isize
        }
        None => libc::syscall(libc::SYS_getrandom, buf, len, flags) as isize,
    }
}

/// # Safety
/// Called by libc users with a valid pointer.
#[no_mangle]
pub unsafe extern "C" fn clock_gettime(clk: i32, ts: *mut Timespec) -> i32 {
    let st = CLOCK.try_with(|c| c.get()).ok().flatten();
    match st {
        Some((origin, tick, n)) => {
            let _ = CLOCK.try_with(|c| c.set(Some((origin, tick, n + 1))));
            // Monotonic-style clocks start near zero, realtime at the origin; both advance one tick per reading.
            let base: i128 = if clk == libc::CLOCK_REALTIME { origin } else { 1_000_000_000 };
            let now = base + tick * (n + 1);
            (*ts).tv_sec = (now / 1_000_000_000) as i64;
            (*ts).tv_nsec = (now % 1_000_000_000) as i64;
            0
        }
        None => libc::syscall(libc::SYS_clock_gettime, clk, ts) as i32,
    }
}

/// # Safety
/// libc ABI.
#[no_mangle]
pub unsafe extern "C" fn getpid() -> i32 {
    match FAKE_PID.try_with(|p| p.get()).ok().flatten() {
        Some(p) => p,
        None => libc::syscall(libc::SYS_getpid) as i32,
    }
}

/// Canary: the iteration order of a small HashSet under the current thread's keys (used to *measure* that two simulated
/// instances really got different hash behaviour).
pub fn canary_order() -> String {
    let mut s = std::collections::HashSet::new();
    for k in ["alpha", "beta", "gamma", "delta", "epsilon", "zeta", "eta", "theta"] {
        s.insert(k);
    }
    s.iter().map(|k| &k[..2]).collect::<Vec<_>>().join("")
}
