//! Engine L: the real `tower_lsp::Server::serve` loop + the real `IncanLanguageServer`, driven by our own
//! single-threaded executor over two simulated pipes (DESIGN.md §1.2, §3.1).
//!
//! Everything behind the pipes is production code: framing codec, router, `buffer_unordered(4)`, the client channel,
//! `tokio::sync::RwLock`, the compiler front end. The only thing the simulator decides is *when* bytes become
//! readable on stdin and *when* stdout accepts how many bytes — the order of those pipe-readiness events is the
//! schedule, because all handler concurrency lives inside the one `serve` future and progresses only when a pipe or a
//! lock becomes ready.

use serde_json::{json, Value};
use std::cell::RefCell;
use std::collections::VecDeque;
use std::future::Future;
use std::pin::Pin;
use std::rc::Rc;
use std::sync::atomic::{AtomicBool, Ordering};
use std::sync::Arc;
use std::task::{Context, Poll, Wake, Waker};
use tokio::io::{AsyncRead, AsyncWrite, ReadBuf};
use tower_lsp::{LspService, Server};

#[derive(Default)]
pub struct PipeIn {
    buf: VecDeque<u8>,
    avail: usize,
    waker: Option<Waker>,
    /// reads that returned fewer bytes than the reader asked for although more input was queued (short reads)
    pub short_reads: u64,
    pub reads: u64,
}

#[derive(Default)]
pub struct PipeOut {
    data: Vec<u8>,
    consumed: usize,
    credit: usize,
    waker: Option<Waker>,
    blocked: bool,
    /// times the writer found no credit (stalled consumer actually hit)
    pub stalls: u64,
    /// writes accepted only in part (short writes)
    pub short_writes: u64,
    pub writes: u64,
}

struct SimIn(Rc<RefCell<PipeIn>>);
struct SimOut(Rc<RefCell<PipeOut>>);

impl AsyncRead for SimIn {
    fn poll_read(self: Pin<&mut Self>, cx: &mut Context<'_>, dst: &mut ReadBuf<'_>) -> Poll<std::io::Result<()>> {
        let mut p = self.0.borrow_mut();
        let n = p.avail.min(p.buf.len()).min(dst.remaining());
        if n == 0 {
            p.waker = Some(cx.waker().clone());
            return Poll::Pending;
        }
        p.reads += 1;
        if n < dst.remaining() && p.buf.len() > n {
            p.short_reads += 1;
        }
        let chunk: Vec<u8> = p.buf.drain(..n).collect();
        dst.put_slice(&chunk);
        p.avail -= n;
        Poll::Ready(Ok(()))
    }
}

impl AsyncWrite for SimOut {
    fn poll_write(self: Pin<&mut Self>, cx: &mut Context<'_>, src: &[u8]) -> Poll<std::io::Result<usize>> {
        let mut p = self.0.borrow_mut();
        let n = p.credit.min(src.len());
        if n == 0 {
            p.waker = Some(cx.waker().clone());
            if !p.blocked {
                p.stalls += 1;
            }
            p.blocked = true;
            return Poll::Pending;
        }
        p.writes += 1;
        if n < src.len() {
            p.short_writes += 1;
        }
        p.data.extend_from_slice(&src[..n]);
        p.credit -= n;
        Poll::Ready(Ok(n))
    }
    fn poll_flush(self: Pin<&mut Self>, _: &mut Context<'_>) -> Poll<std::io::Result<()>> {
        Poll::Ready(Ok(()))
    }
    fn poll_shutdown(self: Pin<&mut Self>, _: &mut Context<'_>) -> Poll<std::io::Result<()>> {
        Poll::Ready(Ok(()))
    }
}

struct Flag(AtomicBool);
impl Wake for Flag {
    fn wake(self: Arc<Self>) {
        self.0.store(true, Ordering::SeqCst);
    }
}

#[derive(Debug, Clone, PartialEq, Eq)]
pub enum Settle {
    /// `serve` has nothing more to do until an external event happens.
    Quiescent,
    /// `serve` returned or panicked.
    Dead(String),
    /// Step budget exhausted while the future kept waking itself.
    OutOfSteps,
}

pub const UNLIMITED: usize = usize::MAX / 4;

/// One language-server instance inside the simulator.
pub struct Sys {
    fut: Option<Pin<Box<dyn Future<Output = ()>>>>,
    pub pin: Rc<RefCell<PipeIn>>,
    pub pout: Rc<RefCell<PipeOut>>,
    flag: Arc<Flag>,
    pub steps: u64,
    pub dead: Option<String>,
    next_id: i64,
}

impl Sys {
    /// `concurrency = None` keeps the framework default (4), as the shipped binary does.
    pub fn new(concurrency: Option<usize>) -> Sys {
        let pin = Rc::new(RefCell::new(PipeIn::default()));
        let pout = Rc::new(RefCell::new(PipeOut::default()));
        let (service, socket) = LspService::new(incan::lsp::IncanLanguageServer::new);
        let mut server = Server::new(SimIn(pin.clone()), SimOut(pout.clone()), socket);
        if let Some(c) = concurrency {
            server = server.concurrency_level(c);
        }
        let fut: Pin<Box<dyn Future<Output = ()>>> = Box::pin(server.serve(service));
        Sys {
            fut: Some(fut),
            pin,
            pout,
            flag: Arc::new(Flag(AtomicBool::new(true))),
            steps: 0,
            dead: None,
            next_id: 1000,
        }
    }

    /// Poll `serve` until it is quiescent (its waker was not invoked during the last poll).
    pub fn settle(&mut self, max_steps: u64) -> Settle {
        if let Some(d) = &self.dead {
            return Settle::Dead(d.clone());
        }
        let waker = Waker::from(self.flag.clone());
        let mut cx = Context::from_waker(&waker);
        let mut n = 0u64;
        while self.flag.0.swap(false, Ordering::SeqCst) {
            n += 1;
            self.steps += 1;
            if n > max_steps {
                self.flag.0.store(true, Ordering::SeqCst);
                return Settle::OutOfSteps;
            }
            let Some(fut) = self.fut.as_mut() else { break };
            let r = std::panic::catch_unwind(std::panic::AssertUnwindSafe(|| fut.as_mut().poll(&mut cx)));
            match r {
                Ok(Poll::Pending) => {}
                Ok(Poll::Ready(())) => {
                    self.dead = Some("serve() returned although stdin is still open".to_string());
                    self.fut = None;
                    return Settle::Dead(self.dead.clone().unwrap_or_default());
                }
                Err(p) => {
                    let msg = crate::par::panic_message(&p);
                    let loc = crate::par::last_panic_location();
                    self.dead = Some(format!("panic inside serve(): {msg} at {loc}"));
                    // The future is in an unknown state: leak it rather than run destructors of poisoned state.
                    if let Some(f) = self.fut.take() {
                        std::mem::forget(f);
                    }
                    return Settle::Dead(self.dead.clone().unwrap_or_default());
                }
            }
        }
        Settle::Quiescent
    }

    /// Queue bytes on the client side of stdin (not yet readable by the server).
    pub fn push_input(&mut self, bytes: &[u8]) {
        self.pin.borrow_mut().buf.extend(bytes.iter().copied());
    }

    /// Bytes queued but not yet made readable.
    pub fn unreleased_in(&self) -> usize {
        let p = self.pin.borrow();
        p.buf.len().saturating_sub(p.avail)
    }

    /// External event IN(n): n more bytes become readable.
    pub fn release_in(&mut self, n: usize) {
        let w = {
            let mut p = self.pin.borrow_mut();
            let cap = p.buf.len();
            p.avail = (p.avail + n).min(cap);
            p.waker.take()
        };
        if let Some(w) = w {
            w.wake();
        }
    }

    /// External event OUT(n): the consumer accepts n more bytes.
    pub fn grant_out(&mut self, n: usize) {
        let w = {
            let mut p = self.pout.borrow_mut();
            p.credit = p.credit.saturating_add(n).min(UNLIMITED);
            p.blocked = false;
            p.waker.take()
        };
        if let Some(w) = w {
            w.wake();
        }
    }

    pub fn revoke_credit(&mut self) {
        self.pout.borrow_mut().credit = 0;
    }

    pub fn out_blocked(&self) -> bool {
        self.pout.borrow().blocked
    }

    pub fn out_credit(&self) -> usize {
        self.pout.borrow().credit
    }

    /// Complete frames written by the server since the last call.
    pub fn drain_frames(&mut self) -> Vec<Value> {
        let mut p = self.pout.borrow_mut();
        let mut out = Vec::new();
        loop {
            let rest = &p.data[p.consumed..];
            let Some(h) = rest.windows(4).position(|w| w == b"\r\n\r\n") else { break };
            let Ok(hdr) = std::str::from_utf8(&rest[..h]) else { break };
            let Some(len) = hdr
                .lines()
                .find_map(|l| l.strip_prefix("Content-Length: "))
                .and_then(|s| s.trim().parse::<usize>().ok())
            else {
                break;
            };
            if rest.len() < h + 4 + len {
                break;
            }
            let v = serde_json::from_slice(&rest[h + 4..h + 4 + len]).unwrap_or(Value::Null);
            out.push(v);
            p.consumed += h + 4 + len;
        }
        out
    }

    pub fn fresh_id(&mut self) -> i64 {
        self.next_id += 1;
        self.next_id
    }

    /// Sequential helper (no faults): deliver one message completely with unlimited credit and run to quiescence.
    pub fn deliver_now(&mut self, msg: &Value, max_steps: u64) -> Settle {
        self.grant_out(UNLIMITED);
        self.push_input(&frame(msg));
        let n = self.pin.borrow().buf.len();
        self.release_in(n);
        self.settle(max_steps)
    }

    /// initialize + initialized, outside the fault window.
    pub fn handshake(&mut self) -> Result<(), String> {
        let init = json!({"jsonrpc":"2.0","id":1,"method":"initialize","params":{"capabilities":{}}});
        let inited = json!({"jsonrpc":"2.0","method":"initialized","params":{}});
        for m in [init, inited] {
            match self.deliver_now(&m, 10_000) {
                Settle::Quiescent => {}
                other => return Err(format!("handshake: {other:?}")),
            }
        }
        let frames = self.drain_frames();
        if !frames.iter().any(|f| f["id"] == 1 && f.get("result").is_some()) {
            return Err("handshake: no initialize result".into());
        }
        self.revoke_credit();
        Ok(())
    }
}

pub fn frame(v: &Value) -> Vec<u8> {
    let s = v.to_string();
    format!("Content-Length: {}\r\n\r\n{}", s.len(), s).into_bytes()
}

pub fn did_open(uri: &str, version: i64, text: &str) -> Value {
    json!({"jsonrpc":"2.0","method":"textDocument/didOpen","params":{"textDocument":{"uri":uri,"languageId":"incan","version":version,"text":text}}})
}
pub fn did_change(uri: &str, version: i64, text: &str) -> Value {
    json!({"jsonrpc":"2.0","method":"textDocument/didChange","params":{"textDocument":{"uri":uri,"version":version},"contentChanges":[{"text":text}]}})
}
/// One notification carrying several full-text changes: each replaces the whole document, the last one is the state.
pub fn did_change_multi(uri: &str, version: i64, texts: &[&str]) -> Value {
    let changes: Vec<Value> = texts.iter().map(|t| json!({"text": t})).collect();
    json!({"jsonrpc":"2.0","method":"textDocument/didChange","params":{"textDocument":{"uri":uri,"version":version},"contentChanges":changes}})
}
pub fn did_close(uri: &str) -> Value {
    json!({"jsonrpc":"2.0","method":"textDocument/didClose","params":{"textDocument":{"uri":uri}}})
}
pub fn hover(id: i64, uri: &str, line: u64, ch: u64) -> Value {
    json!({"jsonrpc":"2.0","id":id,"method":"textDocument/hover","params":{"textDocument":{"uri":uri},"position":{"line":line,"character":ch}}})
}
pub fn definition(id: i64, uri: &str, line: u64, ch: u64) -> Value {
    json!({"jsonrpc":"2.0","id":id,"method":"textDocument/definition","params":{"textDocument":{"uri":uri},"position":{"line":line,"character":ch}}})
}
pub fn completion(id: i64, uri: &str, line: u64, ch: u64) -> Value {
    json!({"jsonrpc":"2.0","id":id,"method":"textDocument/completion","params":{"textDocument":{"uri":uri},"position":{"line":line,"character":ch}}})
}

/// Per-process scratch root on tmpfs (created and removed by the check itself).
///
/// The path has a fixed length (`<base>/ivf-<16 hex>`): document URIs embed it, so frame sizes — and with them the
/// meaning of a byte-granular schedule — must not depend on which process replays a trace.
pub fn scratch_root(tag: &str) -> std::path::PathBuf {
    let base = if std::path::Path::new("/dev/shm").is_dir() {
        std::path::PathBuf::from("/dev/shm")
    } else {
        std::env::temp_dir()
    };
    let id = crate::fnv(format!("{tag}|{}", std::process::id()).as_bytes());
    let p = base.join(format!("ivf-{id:016x}"));
    let _ = std::fs::remove_dir_all(&p);
    if let Err(e) = std::fs::create_dir_all(&p) {
        crate::harness_error(&format!("cannot create scratch dir {}: {e}", p.display()));
    }
    p
}
