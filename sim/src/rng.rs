//! SplitMix64. One integer decides everything: a run's seed is `mix(root, tag, index)`.

#[derive(Clone, Debug)]
pub struct Rng(pub u64);

impl Rng {
    pub fn new(seed: u64) -> Self {
        Rng(seed.wrapping_mul(0x9E3779B97F4A7C15) ^ 0xD1B54A32D192ED03)
    }
    pub fn next(&mut self) -> u64 {
        self.0 = self.0.wrapping_add(0x9E3779B97F4A7C15);
        let mut z = self.0;
        z = (z ^ (z >> 30)).wrapping_mul(0xBF58476D1CE4E5B9);
        z = (z ^ (z >> 27)).wrapping_mul(0x94D049BB133111EB);
        z ^ (z >> 31)
    }
    /// Uniform in 0..n (n > 0).
    pub fn below(&mut self, n: u64) -> u64 {
        debug_assert!(n > 0);
        self.next() % n.max(1)
    }
    /// Uniform in lo..=hi.
    pub fn range(&mut self, lo: u64, hi: u64) -> u64 {
        lo + self.below(hi - lo + 1)
    }
    /// True with probability num/den.
    pub fn chance(&mut self, num: u64, den: u64) -> bool {
        self.below(den) < num
    }
    pub fn pick<'a, T>(&mut self, xs: &'a [T]) -> &'a T {
        &xs[self.below(xs.len() as u64) as usize]
    }
    /// Fork an independent stream (used so that adding draws in one component does not shift another).
    pub fn fork(&mut self, tag: &str) -> Rng {
        Rng::new(mix(self.next(), tag, 0))
    }
    pub fn shuffle<T>(&mut self, xs: &mut [T]) {
        for i in (1..xs.len()).rev() {
            let j = self.below(i as u64 + 1) as usize;
            xs.swap(i, j);
        }
    }
}

/// Derive the seed of run `i` of batch `tag` from the root seed.
pub fn mix(root: u64, tag: &str, i: u64) -> u64 {
    let mut h = root ^ 0x5851F42D4C957F2D;
    for b in tag.bytes() {
        h = (h ^ b as u64).wrapping_mul(0x100000001b3);
    }
    let mut r = Rng::new(h ^ i.wrapping_mul(0xA24BAED4963EE407));
    r.next()
}
