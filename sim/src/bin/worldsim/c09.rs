//! C09 — formatting is consistent with `--check` and `--check`/`--diff` never modify files (DESIGN.md §3.5).
//!
//! Only the file / exit-status clauses are decided here: op-sequence histories of the real `incan fmt` entry point
//! (`format_files`, and sampled `incan-cli fmt` subprocesses) over simulated trees with injected file-system faults,
//! with full tree snapshots around every operation. `fmt(fmt(x)) == fmt(x)` for *all* texts is a pure function of the
//! text and is only sampled through the programs that populate the trees.

use crate::world::{self, Node, Snap, Tree};
use serde::{Deserialize, Serialize};
use serde_json::{json, Value};
use simcore::report::{self, Outcome, Violation};
use simcore::{fnv, mix, par, Rng, Tier};
use std::collections::{BTreeMap, BTreeSet};
use std::path::Path;

const PROPERTY: &str = "C09";

#[derive(Serialize, Deserialize, Clone, Debug)]
pub struct Scn {
    pub tree: Tree,
    /// path argument of every op, relative to the tree root
    pub path_arg: String,
    pub ops: Vec<String>, // check | diff | fmt | vanish:<path>
    pub order: Vec<usize>,
    pub subproc: bool,
    pub faults: Vec<String>,
}

/// Degenerate but legal files: empty, blank, comment-only, docstring-only, one very long line, no final newline.
const DEGENERATE: [&str; 8] = [
    "",
    "\n",
    "   \n\n",
    "  ",
    "# only a comment\n",
    "\"\"\"Only a module docstring.\"\"\"\n",
    "def long_one(aaaaaaaaaaaaaaaaaaaa: int, bbbbbbbbbbbbbbbbbbbbbbbb: int, cccccccccccccccccccccccc: int, dddddddddddddddddddddddd: int, eeeeeeeeeeeeeeeeeeee: int) -> int:\n    return aaaaaaaaaaaaaaaaaaaa + bbbbbbbbbbbbbbbbbbbbbbbb + cccccccccccccccccccccccc + dddddddddddddddddddddddd + eeeeeeeeeeeeeeeeeeee\n",
    "def no_final_newline() -> int:\n    return 1",
];

/// Docstring layouts (module-level and in a function): leading blank / whitespace-only line, trailing blanks, indented
/// continuation lines, one-liners with padding.
const DOCSTRINGS: [&str; 6] = [
    "\"\"\"   \n   Indented first content line after a whitespace-only line.\n   Second line.   \n\"\"\"\n\ndef a() -> int:\n    return 1\n",
    "\"\"\"\n\nTitle after two blank lines\n\n    indented block\n\n\"\"\"\n",
    "\"\"\"  padded one-liner  \"\"\"\n\ndef b() -> int:\n    \"\"\"  function docstring with padding   \"\"\"\n    return 2\n",
    "def c() -> int:\n    \"\"\"\n      first line indented more\n    second line\n\n    \"\"\"\n    return 3\n",
    "\"\"\"\tTabbed start\n\tand a tabbed line\n\"\"\"\n",
    "\"\"\"Text directly, then blank lines\n\n\n\"\"\"\n\nconst Z: int = 1\n",
];

const WELL_FORMED: [&str; 4] = [
    "def add(a: int, b: int) -> int:\n    return a + b\n",
    "model Point:\n    x: int\n    y: int\n\n\ndef origin() -> Point:\n    return Point(x=0, y=0)\n",
    "def main() -> None:\n    println(\"hello\\tworld  \")\n",
    "const LIMIT: int = 10\n\n\ndef under(n: int) -> bool:\n    return n < LIMIT\n",
];

pub fn gen_scn(seed: u64, corpus: &[world::CorpusProgram]) -> Scn {
    let mut r = Rng::new(seed);
    let mut tree = Tree::default();
    let mut faults = Vec::new();
    let nfiles = r.range(1, 6);
    let dirs = ["", "", "src/", "src/core/", "pkg/", "deep/er/est/"];
    for i in 0..nfiles {
        let dir = *r.pick(&dirs);
        let path = format!("{dir}f{i}.incn");
        let content = match r.below(10) {
            0..=4 if !corpus.is_empty() => {
                let c = r.pick(corpus);
                c.files.iter().find(|f| f.0 == c.entry).map(|f| f.1.clone()).unwrap_or_default()
            }
            5 => match r.below(5) {
                0 | 1 => r.pick(&DEGENERATE).to_string(),
                2 | 3 => r.pick(&DOCSTRINGS).to_string(),
                _ => {
                    // deep block nesting (indentation far to the right)
                    let depth = r.range(10, 28);
                    let mut t = String::from("def deep(n: int) -> int:\n");
                    for d in 0..depth {
                        t.push_str(&format!("{}if n > {d}:\n", "    ".repeat(d as usize + 1)));
                    }
                    t.push_str(&format!("{}return n\n    return 0\n", "    ".repeat(depth as usize + 1)));
                    t
                }
            },
            6..=7 => {
                let p = crate::c12::gen_program(r.next());
                p.files.iter().find(|f| f.0 == p.entry).map(|f| f.1.clone()).unwrap_or_default()
            }
            _ => {
                // a well-formed file, sometimes made sloppy (extra spaces / blank lines / missing final newline)
                let mut s = r.pick(&WELL_FORMED).to_string();
                match r.below(4) {
                    0 => s = s.replace(" -> ", "  ->  "),
                    1 => s.push_str("\n\n\n"),
                    2 => s = s.trim_end().to_string(),
                    _ => {}
                }
                s
            }
        };
        // a checkout with Windows line endings (the lexer ignores `\r`; what fmt writes must still satisfy --check)
        let content = if r.chance(1, 6) { content.replace("\r\n", "\n").replace('\n', "\r\n") } else { content };
        tree.file(&path, &content);
    }
    // things that must be skipped or survive
    if r.chance(1, 3) {
        tree.file("target/generated.incn", "def   ugly( ) -> int:\n    return 1\n");
    }
    if r.chance(1, 3) {
        tree.file(".hidden/secret.incn", "def   ugly( ) -> int:\n    return 1\n");
    }
    if r.chance(1, 3) {
        tree.file("notes.txt", "def   not_incan( ) :\n");
    }
    if r.chance(1, 4) {
        tree.file("legacy.incan", "def   other_ext( ) -> int:\n    return 1\n");
    }
    // file-system faults
    if r.chance(1, 4) {
        tree.file("broken_syntax.incn", "def broken( -> int:\n    return 1\n");
        faults.push("unparsable".to_string());
    }
    if r.chance(1, 6) {
        tree.nodes.push(("binary.incn".into(), Node::Bytes(vec![0xff, 0xfe, b'd', b'e', b'f', 0xc3, 0x28, b'\n'])));
        faults.push("non-utf8".to_string());
    }
    if r.chance(1, 6) {
        tree.nodes.push(("dirlike.incn".into(), Node::Dir));
        tree.file("dirlike.incn/inside.incn", "def   inside( ) -> int:\n    return 1\n");
        faults.push("dir-named-incn".to_string());
    }
    if r.chance(1, 6) {
        tree.nodes.push(("dangling.incn".into(), Node::Symlink("no/such/target.incn".into())));
        faults.push("dangling-symlink".to_string());
    }
    if r.chance(1, 8) {
        tree.nodes.push(("linked.incn".into(), Node::Symlink("f0.incn".into())));
        faults.push("symlink-to-file".to_string());
    }
    if r.chance(1, 6) {
        // a link in a sub-directory whose (relative) target sits next to it and needs formatting
        tree.file("links/real_target.incn", "def   behind_the_link( ) -> int:\n    return 1\n");
        tree.nodes.push(("links/alias.incn".into(), Node::Symlink("real_target.incn".into())));
        tree.file("links/deeper/other_target.incn", "def   deeper_target( ) -> int:\n    return 2\n");
        tree.nodes.push(("links/up_alias.incn".into(), Node::Symlink("deeper/other_target.incn".into())));
        faults.push("relative-symlink-in-subdir".to_string());
    }
    let mut ops: Vec<String> = ["check", "diff", "fmt", "check", "fmt", "diff"].iter().map(|s| s.to_string()).collect();
    if r.chance(1, 6) && nfiles > 1 {
        // a file vanishes between two operations of the history
        let victim = tree.nodes.iter().filter(|(p, n)| matches!(n, Node::File(_)) && p.starts_with('f') || p.contains("/f")).map(|(p, _)| p.clone()).next();
        if let Some(v) = victim {
            let at = r.range(1, 3) as usize;
            ops.insert(at, format!("vanish:{v}"));
            faults.push("file-vanishes".to_string());
        }
    }
    if r.chance(1, 5) {
        // shuffle the middle of the history a bit: extra checks / diffs
        ops.insert(r.range(0, ops.len() as u64) as usize, if r.chance(1, 2) { "check" } else { "diff" }.to_string());
    }
    if r.chance(1, 3) {
        // both read-only flags on one command line
        ops.insert(r.range(0, 2) as usize, "check+diff".to_string());
    }
    let path_arg = match r.below(9) {
        0 if tree.get("src/f0.incn").is_some() => "src".to_string(),
        // other spellings of a path: trailing slash, leading ./, absolute (resolved by the runner), things that are not there
        6 if tree.nodes.iter().any(|(p, _)| p.starts_with("src/")) => "src/".to_string(),
        7 => "./".to_string(),
        8 => r.pick(&["<ABS>", "no_such_dir", "notes.txt", "legacy.incan"]).to_string(),
        1 => tree.nodes.iter().find(|(p, n)| p.ends_with(".incn") && matches!(n, Node::File(_))).map(|(p, _)| p.clone()).unwrap_or(".".into()),
        _ => ".".to_string(),
    };
    let order = {
        let mut o: Vec<usize> = (0..tree.nodes.len()).collect();
        r.shuffle(&mut o);
        o
    };
    Scn { tree, path_arg, ops, order, subproc: false, faults }
}

// ------------------------------------------------------------------------------------------------ running ops

#[derive(Clone, Debug)]
pub struct OpOut {
    pub code: i32,
    pub stdout: String,
    pub stderr: String,
    pub crashed: Option<String>,
}

struct Capture {
    saved_out: i32,
    saved_err: i32,
    out_path: std::path::PathBuf,
    err_path: std::path::PathBuf,
}

fn capture_begin(scratch: &Path) -> Capture {
    use std::io::Write;
    let _ = std::io::stdout().flush();
    let out_path = scratch.join("cap.out");
    let err_path = scratch.join("cap.err");
    unsafe {
        let saved_out = libc::dup(1);
        let saved_err = libc::dup(2);
        for (p, fd) in [(&out_path, 1), (&err_path, 2)] {
            let c = std::ffi::CString::new(p.to_string_lossy().as_bytes()).unwrap_or_default();
            let f = libc::open(c.as_ptr(), libc::O_WRONLY | libc::O_CREAT | libc::O_TRUNC, 0o600);
            if f >= 0 {
                libc::dup2(f, fd);
                libc::close(f);
            }
        }
        Capture { saved_out, saved_err, out_path, err_path }
    }
}

fn capture_end(c: Capture) -> (String, String) {
    use std::io::Write;
    let _ = std::io::stdout().flush();
    unsafe {
        libc::dup2(c.saved_out, 1);
        libc::dup2(c.saved_err, 2);
        libc::close(c.saved_out);
        libc::close(c.saved_err);
    }
    let o = String::from_utf8_lossy(&std::fs::read(&c.out_path).unwrap_or_default()).to_string();
    let e = String::from_utf8_lossy(&std::fs::read(&c.err_path).unwrap_or_default()).to_string();
    (o, e)
}

fn run_op(op: &str, scn: &Scn, root: &Path, scratch: &Path, fakebin: &Path, hash_seed: u64) -> OpOut {
    let (check, diff) = (op == "check" || op == "check+diff", op == "diff" || op == "check+diff");
    if scn.subproc {
        let mut args: Vec<String> = vec!["--no-banner".into(), "--color".into(), "never".into(), "fmt".into()];
        if check {
            args.push("--check".into());
        }
        if diff {
            args.push("--diff".into());
        }
        args.push(if scn.path_arg == "<ABS>" { root.to_string_lossy().to_string() } else { scn.path_arg.clone() });
        let env = world::cli_env(fakebin, Some(hash_seed), &[]);
        let r = world::run_proc(&world::cli_path(), &args, root, &env, 60_000);
        if let Some(e) = &r.spawn_error {
            simcore::harness_error(&format!("cannot spawn incan-cli: {e}"));
        }
        let crashed = if r.timed_out {
            Some("timeout".to_string())
        } else if r.signal.is_some() {
            Some(format!("signal {:?}", r.signal))
        } else if r.err_str().contains("panicked at") {
            Some("panic".to_string())
        } else {
            None
        };
        let strip = format!("{}/", root.display());
        return OpOut { code: r.code.unwrap_or(-1), stdout: r.out_str().replace(&strip, ""), stderr: r.err_str().replace(&strip, ""), crashed };
    }
    if let Err(e) = std::env::set_current_dir(root) {
        simcore::harness_error(&format!("chdir: {e}"));
    }
    let path = if scn.path_arg == "<ABS>" { root.to_string_lossy().to_string() } else { scn.path_arg.clone() };
    let cap = capture_begin(scratch);
    let r = par::instance_timeout(hash_seed, None, std::time::Duration::from_secs(60), move || {
        match incan::cli::commands::format_files(&path, check, diff) {
            Ok(c) => (c.0, String::new()),
            Err(e) => (e.exit_code.0, e.message),
        }
    });
    let (o, e) = capture_end(cap);
    let _ = std::env::set_current_dir("/");
    let strip = format!("{}/", root.display());
    let o = o.replace(&strip, "");
    let mut e = e.replace(&strip, "");
    match r {
        Ok((code, msg)) => {
            if !msg.is_empty() {
                e.push_str(&msg.replace(&strip, ""));
                e.push('\n');
            }
            OpOut { code, stdout: o, stderr: e, crashed: None }
        }
        Err(p) => OpOut { code: -1, stdout: o, stderr: e, crashed: Some(p) },
    }
}

// ------------------------------------------------------------------------------------------------ oracle helpers

fn snap_diff(a: &BTreeMap<String, Snap>, b: &BTreeMap<String, Snap>) -> Option<String> {
    let keys: BTreeSet<&String> = a.keys().chain(b.keys()).collect();
    for k in keys {
        match (a.get(k), b.get(k)) {
            (Some(x), Some(y)) => {
                if x.kind != y.kind || x.len != y.len || x.hash != y.hash {
                    return Some(format!("content of {k} changed"));
                }
                if x.ino != y.ino {
                    return Some(format!("{k} was replaced (inode changed)"));
                }
                if x.mtime_ns != y.mtime_ns {
                    return Some(format!("{k} was rewritten (mtime changed)"));
                }
            }
            (Some(_), None) => return Some(format!("{k} was removed")),
            (None, Some(_)) => return Some(format!("{k} was created")),
            _ => {}
        }
    }
    None
}

fn listed(out: &str, prefix: &str) -> Vec<String> {
    out.lines().filter_map(|l| l.strip_prefix(prefix)).map(|p| p.split(": ").next().unwrap_or(p).trim().trim_start_matches("./").to_string()).collect()
}

/// Normalise a source line: identifiers -> I, numbers -> 0, string contents dropped.
fn line_shape(l: &str) -> String {
    let mut o = String::new();
    let mut chars = l.trim_start().chars().peekable();
    while let Some(c) = chars.next() {
        if c.is_alphabetic() || c == '_' {
            let mut w = String::from(c);
            while let Some(n) = chars.peek() {
                if n.is_alphanumeric() || *n == '_' {
                    w.push(*n);
                    chars.next();
                } else {
                    break;
                }
            }
            let kw = ["def", "return", "case", "match", "if", "else", "elif", "for", "in", "while", "model", "class", "enum", "trait", "type", "newtype", "pub", "const", "import", "from", "as", "with", "async", "await", "mut", "self", "pass", "and", "or", "not", "None", "true", "false", "True", "False"];
            if kw.contains(&w.as_str()) {
                o.push_str(&w);
            } else {
                o.push('I');
            }
        } else if c.is_ascii_digit() {
            while chars.peek().is_some_and(|n| n.is_ascii_digit() || *n == '.') {
                chars.next();
            }
            o.push('0');
        } else if c == '"' {
            o.push('S');
            for n in chars.by_ref() {
                if n == '"' {
                    break;
                }
            }
        } else {
            o.push(c);
        }
    }
    o
}

fn first_message(err: &str) -> String {
    // first parser/lexer message of a formatter error, without positions or identifiers
    let clean: String = strip_ansi(err);
    for l in clean.lines() {
        if let Some(p) = l.find("error") {
            let m = l[p..].trim();
            if m.contains(':') {
                let msg = m.split_once(':').map(|x| x.1).unwrap_or(m).trim();
                if !msg.is_empty() && !msg.starts_with("syntax error (formatting") {
                    return normalise_message(msg);
                }
            }
        }
    }
    "unknown".into()
}

fn strip_ansi(s: &str) -> String {
    let mut o = String::new();
    let mut it = s.chars();
    while let Some(c) = it.next() {
        if c == '\u{1b}' {
            for n in it.by_ref() {
                if n == 'm' {
                    break;
                }
            }
        } else {
            o.push(c);
        }
    }
    o.replace("\\n", "\n")
}

fn normalise_message(m: &str) -> String {
    // drop payloads such as Ident("x") / String("...") / Int(3)
    let mut o = String::new();
    let mut depth = 0;
    for c in m.chars() {
        match c {
            '(' => {
                depth += 1;
                if depth == 1 {
                    o.push('(');
                }
            }
            ')' => {
                if depth == 1 {
                    o.push(')');
                }
                if depth > 0 {
                    depth -= 1;
                }
            }
            _ if depth == 0 => o.push(c),
            _ => {}
        }
    }
    o.chars().take(90).collect()
}

/// Whitespace clause: exactly one final newline; outside string tokens no tab and no trailing blank.
fn whitespace_problem(text: &str) -> Option<(String, String)> {
    if text.is_empty() {
        return None;
    }
    if !text.ends_with('\n') {
        return Some(("final-newline".into(), "missing".into()));
    }
    if text.ends_with("\n\n") {
        return Some(("final-newline".into(), "more than one".into()));
    }
    let Ok(tokens) = incan::lexer::lex(text) else { return None };
    let mut masked: Vec<u8> = text.as_bytes().to_vec();
    for t in &tokens {
        let k = format!("{:?}", t.kind);
        if k.starts_with("String(") || k.starts_with("FString(") || k.starts_with("Bytes(") {
            for b in masked.iter_mut().take(t.span.end.min(text.len())).skip(t.span.start) {
                if *b != b'\n' {
                    *b = b'x';
                }
            }
        }
    }
    let m = String::from_utf8_lossy(&masked).to_string();
    for (orig, line) in text.lines().zip(m.lines()) {
        // comments are not string tokens but their content is the user's: only the part before `#` counts
        let code = line.split('#').next().unwrap_or(line);
        let is_comment_tail = code.len() < line.len();
        if code.contains('\t') {
            return Some(("tab".into(), line_shape(orig)));
        }
        if !is_comment_tail && (line.ends_with(' ') || line.ends_with('\t')) {
            let t = orig.trim_end();
            let last = t.split_whitespace().last().unwrap_or("");
            let key = if t.is_empty() { "blank line".to_string() } else { format!("after {:?}", last.chars().rev().take(3).collect::<String>().chars().rev().collect::<String>()) };
            return Some(("trailing-whitespace".into(), key));
        }
    }
    None
}

// ------------------------------------------------------------------------------------------------ one scenario

#[derive(Clone, Debug)]
pub struct Finding {
    pub class: String,
    pub fingerprint: String,
    pub detail: String,
}

pub struct CaseOut {
    pub findings: Vec<Finding>,
    pub ops_run: u64,
    pub files_formatted: u64,
    pub faults_met: BTreeMap<String, u64>,
}

pub fn run_case(scn: &Scn, scratch: &Path, fakebin: &Path, hash_seed: u64) -> CaseOut {
    let root = scratch.join("t");
    scn.tree.materialise(&root, Some(&scn.order));
    let mut out = CaseOut { findings: Vec::new(), ops_run: 0, files_formatted: 0, faults_met: BTreeMap::new() };
    let mut add = |out: &mut CaseOut, class: &str, key: &str, detail: String| {
        out.findings.push(Finding { class: class.into(), fingerprint: format!("{class}|{key}"), detail });
    };
    // files reported as rewritten by the latest `fmt`, awaiting their "--check must pass" obligation
    let mut rewritten: BTreeSet<String> = BTreeSet::new();
    // `fmt` just ran over the tree without touching it since: files it did not complain about are, by its own account, formatted
    let mut fmt_just_ran: Option<BTreeSet<String>> = None;
    let mut last_fmt_clean: Option<BTreeMap<String, Snap>> = None;
    for op in &scn.ops {
        if let Some(v) = op.strip_prefix("vanish:") {
            let _ = std::fs::remove_file(root.join(v));
            rewritten.remove(v);
            last_fmt_clean = None;
            fmt_just_ran = None;
            continue;
        }
        let before = world::snapshot(&root);
        let r = run_op(op, scn, &root, scratch, fakebin, hash_seed);
        out.ops_run += 1;
        let after = world::snapshot(&root);
        if let Some(c) = &r.crashed {
            add(&mut out, "crash", op, format!("`incan fmt{}` on {:?} did not end normally: {c}; stderr: {}", if op == "fmt" { String::new() } else { format!(" --{op}") }, scn.path_arg, trunc(&r.stderr, 300)));
            break;
        }
        for e in ["Error reading", "Error formatting"] {
            for p in listed(&r.stderr, &format!("{e} ")) {
                let kind = if p.contains("broken_syntax") {
                    "unparsable"
                } else if p.contains("binary") {
                    "non-utf8"
                } else if p.contains("dirlike") {
                    "dir-named-incn"
                } else if p.contains("dangling") {
                    "dangling-symlink"
                } else {
                    continue;
                };
                *out.faults_met.entry(kind.to_string()).or_insert(0) += 1;
            }
        }
        match op.as_str() {
            "check" | "diff" | "check+diff" => {
                // I1: read-only modes never modify anything
                if let Some(d) = snap_diff(&before, &after) {
                    add(&mut out, "readonly-mode-modified-files", &format!("{op}"), format!("`incan fmt {} {}` changed the tree: {d}", op.split('+').map(|f| format!("--{f}")).collect::<Vec<_>>().join(" "), scn.path_arg));
                }
                if op == "check" {
                    if let Some(errored) = fmt_just_ran.take() {
                        // consistency with --check: fmt and --check decide "is this file formatted?" the same way
                        for f in listed(&r.stdout, "Would reformat: ") {
                            if !rewritten.contains(&f) && !errored.contains(&f) {
                                add(&mut out, "check-flags-file-fmt-left-alone", "", format!("`incan fmt {}` exited {} without rewriting or complaining about {f}, yet the next `incan fmt --check` wants to reformat it", scn.path_arg, "0/1"));
                            }
                        }
                    }
                }
                if op == "check" && !rewritten.is_empty() {
                    // I2: --check right after fmt rewrote a file
                    let would = listed(&r.stdout, "Would reformat: ");
                    let errs = listed(&r.stderr, "Error formatting ");
                    for f in rewritten.clone() {
                        let text = std::fs::read_to_string(root.join(&f)).unwrap_or_default();
                        if would.iter().any(|w| w == &f) {
                            // which line keeps changing?
                            let again = incan::format_source(&text).unwrap_or_default();
                            let shape = text.lines().zip(again.lines()).find(|(a, b)| a != b).map(|(a, b)| format!("{} -> {}", line_shape(a), line_shape(b))).unwrap_or_else(|| "line count changes".into());
                            add(&mut out, "check-fails-after-fmt", &format!("not-idempotent|{}", trunc(&shape, 80)), format!("{f} was rewritten by `incan fmt`, the next `incan fmt --check` (exit {}) wants to reformat it again: {shape}", r.code));
                        } else if errs.iter().any(|w| w == &f) {
                            let msg = first_message(&r.stderr);
                            add(&mut out, "check-fails-after-fmt", &format!("unparsable-output|{msg}"), format!("{f} was rewritten by `incan fmt` into text that no longer parses; the next `incan fmt --check` exits {}: {msg}", r.code));
                        }
                    }
                    if would.is_empty() && errs.is_empty() && r.code != 0 && scn.faults.is_empty() {
                        add(&mut out, "check-fails-after-fmt", "exit-nonzero-without-reason", format!("`incan fmt --check` exits {} right after `incan fmt` although it lists no file", r.code));
                    }
                    rewritten.clear();
                }
            }
            _ => {
                // fmt
                let formatted = listed(&r.stdout, "Formatted: ");
                out.files_formatted += formatted.len() as u64;
                // I3: shape of what was written
                for f in &formatted {
                    let Ok(text) = std::fs::read_to_string(root.join(f)) else { continue };
                    if let Some((kind, key)) = whitespace_problem(&text) {
                        add(&mut out, "bad-whitespace-written", &format!("{kind}|{key}"), format!("{f} as rewritten by `incan fmt`: {kind} ({key})"));
                    }
                }
                // nothing may appear that was not there (a rewrite replaces bytes, it does not create paths)
                for k in after.keys() {
                    if !before.contains_key(k) {
                        add(&mut out, "fmt-created-file", "", format!("`incan fmt {}` created {k}, which did not exist before", scn.path_arg));
                    }
                }
                // a listed path that is a symbolic link rewrites the file it points to
                let mut via_link: BTreeSet<String> = BTreeSet::new();
                for f in &formatted {
                    if let Some(Node::Symlink(t)) = scn.tree.get(f) {
                        let dir = f.rsplit_once('/').map(|(d, _)| format!("{d}/")).unwrap_or_default();
                        via_link.insert(format!("{dir}{t}"));
                    }
                }
                // only listed files may change; unlisted files must be untouched
                for (k, a) in &before {
                    if a.kind != 'f' {
                        continue;
                    }
                    if let Some(b) = after.get(k) {
                        let changed = a.hash != b.hash || a.len != b.len;
                        if changed && !formatted.iter().any(|f| f == k) && !via_link.contains(k) {
                            add(&mut out, "fmt-changed-unlisted-file", "", format!("{k} changed during `incan fmt {}` but is not reported as formatted", scn.path_arg));
                        }
                        if changed && !(k.ends_with(".incn")) {
                            add(&mut out, "fmt-touched-foreign-file", "", format!("{k} is not an .incn file but was changed"));
                        }
                        if changed && (k.starts_with("target/") || k.starts_with(".hidden/")) {
                            add(&mut out, "fmt-touched-excluded-dir", "", format!("{k} lies in an excluded directory but was changed"));
                        }
                    } else {
                        add(&mut out, "fmt-removed-file", "", format!("{k} disappeared during `incan fmt`"));
                    }
                }
                // second fmt in a row leaves the tree byte-identical
                if let Some(prev) = &last_fmt_clean {
                    let same = prev.iter().all(|(k, a)| after.get(k).is_some_and(|b| a.hash == b.hash && a.len == b.len)) && prev.len() == after.len();
                    if !same && !formatted.is_empty() {
                        let f = &formatted[0];
                        add(&mut out, "second-fmt-changes-tree", "", format!("a second `incan fmt` rewrote {f} again"));
                    }
                }
                // I4: faults present => non-zero exit, healthy files still processed
                let fault_in_scope = [".", "./", "<ABS>"].contains(&scn.path_arg.as_str()) && scn.faults.iter().any(|f| ["unparsable", "non-utf8"].contains(&f.as_str()));
                // (a directory that happens to be called `x.incn` is just a directory: it is walked, not an error)
                if fault_in_scope && r.code == 0 {
                    add(&mut out, "fault-exit-zero", &scn.faults.join("+"), format!("`incan fmt .` exits 0 although the tree contains {:?}", scn.faults));
                }
                // the statement is about a *file*: `incan fmt --check <file>` right after `incan fmt` rewrote it, whatever path
                // argument the rewriting run was given (read-only, so it does not disturb the history)
                if !scn.subproc {
                    for f in formatted.iter().take(3) {
                        let mut single = scn.clone();
                        single.path_arg = f.clone();
                        let r1 = run_op("check", &single, &root, scratch, fakebin, hash_seed);
                        if r1.crashed.is_none() && r1.code != 0 && !listed(&r1.stdout, "Would reformat: ").is_empty() {
                            add(&mut out, "check-fails-after-fmt", "per-file-check-disagrees", format!("`incan fmt {}` rewrote {f}; `incan fmt --check {f}` right afterwards exits {}", scn.path_arg, r1.code));
                        }
                    }
                }
                rewritten = formatted.into_iter().collect();
                let mut errored: BTreeSet<String> = BTreeSet::new();
                for e in ["Error reading ", "Error formatting ", "Error writing "] {
                    errored.extend(listed(&r.stderr, e));
                }
                fmt_just_ran = Some(errored);
                last_fmt_clean = Some(after.clone());
            }
        }
    }
    let _ = std::fs::remove_dir_all(&root);
    out
}

fn trunc(s: &str, n: usize) -> String {
    if s.len() <= n {
        s.to_string()
    } else {
        let mut e = n;
        while !s.is_char_boundary(e) {
            e -= 1;
        }
        format!("{}…", &s[..e])
    }
}

// ------------------------------------------------------------------------------------------------ batch

fn budget(t: Tier) -> (u64, u64) {
    // (in-process histories, subprocess histories)
    match t {
        Tier::Quick => (simcore::scaled(1200), simcore::scaled(48)),
        Tier::Thorough => (simcore::scaled(40_000), simcore::scaled(1200)),
    }
}

fn case(root: u64, i: u64, n_in: u64, corpus: &[world::CorpusProgram]) -> Scn {
    let mut s = gen_scn(mix(root, PROPERTY, i), corpus);
    s.subproc = i >= n_in;
    s
}

fn worker(args: &[String], spec: par::WorkerSpec) {
    par::install_quiet_panic_hook();
    let root = simcore::root_seed(args);
    let (n_in, n_sub) = budget(simcore::tier(args));
    let corpus = world::corpus();
    let scratch = simcore::lsp::scratch_root(&format!("c09-w{}", spec.index));
    let fakebin = world::fakebin_dir(&scratch);
    let mut viol: Vec<Value> = Vec::new();
    let mut counters: BTreeMap<String, u64> = BTreeMap::new();
    let mut shapes: BTreeSet<String> = BTreeSet::new();
    let mut samples: Vec<Value> = Vec::new();
    let mut done = 0u64;
    let mut i = spec.index;
    while i < n_in + n_sub {
        let scn = case(root, i, n_in, &corpus);
        let out = run_case(&scn, &scratch, &fakebin, mix(root, "C09-hash", i) | 1);
        done += 1;
        *counters.entry(if scn.subproc { "histories_subprocess" } else { "histories_inprocess" }.into()).or_insert(0) += 1;
        *counters.entry("ops".into()).or_insert(0) += out.ops_run;
        *counters.entry("files_rewritten".into()).or_insert(0) += out.files_formatted;
        for f in &scn.faults {
            *counters.entry(format!("fault_present_{f}")).or_insert(0) += 1;
        }
        for (k, c) in &out.faults_met {
            *counters.entry(format!("fault_met_{k}")).or_insert(0) += c;
        }
        if out.files_formatted > 0 || !scn.faults.is_empty() {
            shapes.insert(format!("{:x}", fnv(serde_json::to_string(&scn.tree).unwrap_or_default().as_bytes())));
        }
        if samples.len() < 2 && out.files_formatted > 0 && !scn.faults.is_empty() {
            samples.push(json!({"case": i, "tree": scn.tree.nodes.iter().map(|(p, n)| format!("{p}{}", match n { Node::Dir => "/", Node::Symlink(_) => " -> (symlink)", Node::Bytes(_) => " (non-UTF-8)", _ => "" })).collect::<Vec<_>>(), "ops": scn.ops, "path_arg": scn.path_arg, "faults": scn.faults, "subprocess": scn.subproc}));
        }
        for f in &out.findings {
            viol.push(json!({"index": i, "class": f.class, "fingerprint": f.fingerprint, "detail": f.detail}));
        }
        i += spec.count;
    }
    let _ = std::fs::remove_dir_all(&scratch);
    par::emit_worker_result(&json!({"runs": done, "violations": viol, "counters": counters, "shapes": shapes, "samples": samples}));
}

pub fn main(args: &[String]) {
    if let Some(spec) = par::worker_spec(args) {
        worker(args, spec);
        return;
    }
    let t0 = std::time::Instant::now();
    par::install_quiet_panic_hook();
    let tier = simcore::tier(args);
    let root = simcore::root_seed(args);
    let nw = par::nworkers(args);
    let results = par::run_workers(args, nw);
    let (n_in, _) = budget(tier);
    let corpus = world::corpus();
    let mut total = 0u64;
    let mut counters: BTreeMap<String, u64> = BTreeMap::new();
    let mut shapes: BTreeSet<String> = BTreeSet::new();
    let mut samples: Vec<Value> = Vec::new();
    let mut viols: Vec<Value> = Vec::new();
    for r in &results {
        total += r["runs"].as_u64().unwrap_or(0);
        report::add_counters(&mut counters, &r["counters"]);
        for s in r["shapes"].as_array().cloned().unwrap_or_default() {
            shapes.insert(s.as_str().unwrap_or("").to_string());
        }
        samples.extend(r["samples"].as_array().cloned().unwrap_or_default());
        viols.extend(r["violations"].as_array().cloned().unwrap_or_default());
    }
    // samples are the lowest-numbered qualifying cases, whatever the worker count
    samples.sort_by_key(|x| x["case"].as_u64().unwrap_or(u64::MAX));
    samples.truncate(3);
    viols.sort_by_key(|v| v["index"].as_u64().unwrap_or(0));
    let scratch = simcore::lsp::scratch_root("c09-parent");
    let fakebin = world::fakebin_dir(&scratch);
    let mut seen: BTreeMap<String, u64> = BTreeMap::new();
    let mut out_viol = Vec::new();
    for v in &viols {
        let fp = v["fingerprint"].as_str().unwrap_or("").to_string();
        let c = seen.entry(fp.clone()).or_insert(0);
        *c += 1;
        if *c > 1 {
            continue;
        }
        let idx = v["index"].as_u64().unwrap_or(0);
        let scn = case(root, idx, n_in, &corpus);
        let again = run_case(&scn, &scratch, &fakebin, mix(root, "C09-hash", idx) | 1);
        if !again.findings.iter().any(|f| f.fingerprint == fp) {
            simcore::harness_error(&format!("case {idx}: finding {fp} did not reproduce when re-run: nondeterminism in the simulator"));
        }
        // minimise: drop tree nodes and ops while the fingerprint persists
        let mut cur = scn.clone();
        let mut budget = 60;
        let mut k = 0;
        while k < cur.tree.nodes.len() && budget > 0 {
            if cur.tree.nodes.len() > 1 {
                let mut c2 = cur.clone();
                c2.tree.nodes.remove(k);
                c2.order = (0..c2.tree.nodes.len()).collect();
                budget -= 1;
                if run_case(&c2, &scratch, &fakebin, 1).findings.iter().any(|f| f.fingerprint == fp) {
                    cur = c2;
                    continue;
                }
            }
            k += 1;
        }
        let mut k = 0;
        while k < cur.ops.len() && budget > 0 {
            let mut c2 = cur.clone();
            c2.ops.remove(k);
            budget -= 1;
            if run_case(&c2, &scratch, &fakebin, 1).findings.iter().any(|f| f.fingerprint == fp) {
                cur = c2;
                continue;
            }
            k += 1;
        }
        out_viol.push(Violation {
            property: PROPERTY.into(),
            class: v["class"].as_str().unwrap_or("").to_string(),
            fingerprint: fp.clone(),
            seed: mix(root, PROPERTY, idx),
            detail: format!("{}\n  minimised history: ops {:?} on {:?} with path argument {:?}", v["detail"].as_str().unwrap_or(""), cur.ops, cur.tree.nodes.iter().map(|(p, _)| p.clone()).collect::<Vec<_>>(), cur.path_arg),
            replay: json!({"engine": "worldsim", "check": "C09", "expect_fingerprint": fp, "scenario": cur}),
        });
    }
    let _ = std::fs::remove_dir_all(&scratch);
    let wall = t0.elapsed().as_secs_f64();
    let coverage = json!({
        "evaluations": total,
        "distinct_nontrivial": shapes.len(),
        "rule": "one evaluation = one op-sequence history (check, diff, fmt, check, fmt, diff, with extra read-only ops and a vanishing file in some) of the real `incan fmt` entry point over a generated tree (1-6 source files from the repository corpus, the C12 program generator and sloppy well-formed snippets, in nested dirs; target/, hidden dirs, non-.incn and .incan files) with injected file-system faults (unparsable file, non-UTF-8 file, directory named x.incn, dangling symlink, symlink to a file, file vanishing between ops) and a full snapshot (bytes, inode, mtime) around every op. Non-trivial = at least one file was rewritten or a fault was present; distinct = distinct tree.",
        "samples": samples,
        "runs_per_hour": if wall > 0.0 { (total as f64 / wall * 3600.0) as u64 } else { 0 },
        "simulated_time": "not applicable: no timers; mtimes are only compared for equality across read-only ops",
        "fault_kinds": counters.iter().filter(|(k, _)| k.starts_with("fault_")).map(|(k, v)| (k.clone(), json!(v))).collect::<BTreeMap<_, _>>(),
        "counters": counters,
        "findings_total": viols.len(),
        "finding_fingerprints": seen,
        "workers": nw,
        "not_decided_here": "fmt(fmt(x)) == fmt(x) for all parseable x is a pure function of the text; it is only sampled through the programs in the trees",
        "real_vs_stub": {
            "real": ["cli::commands::format_files (directory walk, read-modify-write, messages, exit status)", "format_source / format_diff", "incan-cli fmt subprocesses (sampled)"],
            "stub": ["file system contents (generated trees on tmpfs)"]
        }
    });
    report::finish(Outcome {
        property: PROPERTY.into(),
        tier,
        seed: root,
        level: "exploration".into(),
        coverage,
        assumptions: vec![
            "files that `incan fmt` refused (unparsable, unreadable) are a premise failure for the `--check` clause: they are only required to be left untouched".into(),
            "whitespace findings are raised only where the real lexer can tell string tokens apart (the rewritten text lexes)".into(),
        ],
        wall_s: wall,
        violations: out_viol,
        occurrences: seen.clone(),
    });
}

pub fn replay(doc: &Value, path: &str) -> ! {
    par::install_quiet_panic_hook();
    let rp = &doc["replay"];
    let scn: Scn = serde_json::from_value(rp["scenario"].clone()).unwrap_or_else(|e| simcore::harness_error(&format!("scenario: {e}")));
    let fp = rp["expect_fingerprint"].as_str().unwrap_or("").to_string();
    let scratch = simcore::lsp::scratch_root("c09-replay");
    let fakebin = world::fakebin_dir(&scratch);
    let out = run_case(&scn, &scratch, &fakebin, 1);
    let _ = std::fs::remove_dir_all(&scratch);
    for f in &out.findings {
        println!("finding: {} — {}", f.fingerprint, f.detail);
    }
    if out.findings.iter().any(|f| f.fingerprint == fp) {
        println!("VIOLATION property={PROPERTY} replay={path}");
        println!("REPRODUCED fingerprint={fp}");
        std::process::exit(1);
    }
    println!("NOT-REPRODUCED fingerprint={fp} (the tree no longer fails this replay)");
    std::process::exit(0);
}
