//! C12 — compilation is deterministic (DESIGN.md §3.2).
//!
//! A *world* is (hash-key stream, environment, location of the project copy / cwd, simulated clock origin, creation
//! order of files = readdir order). For one program the real pipeline runs once per world — in-process on a fresh
//! simulated process instance, and (sampled) as real `incan-cli` subprocesses under the LD_PRELOAD shim — and all
//! observations must be byte-identical.

use crate::world::{self, Tree};
use serde::{Deserialize, Serialize};
use serde_json::{json, Value};
use simcore::report::{self, Outcome, Violation};
use simcore::{fnv, mix, par, Rng, Tier};
use std::collections::{BTreeMap, BTreeSet};
use std::path::{Path, PathBuf};

const PROPERTY: &str = "C12";

#[derive(Serialize, Deserialize, Clone, Debug)]
pub struct Program {
    pub name: String,
    pub kind: String,
    pub files: Vec<(String, String)>,
    pub entry: String,
    /// hash-ordered collections this program is designed to fill with >= 2 entries
    pub targets: Vec<String>,
}

#[derive(Serialize, Deserialize, Clone, Debug, PartialEq)]
pub struct World {
    pub hash_seed: u64,
    pub env: Vec<(String, String)>,
    /// location of the project copy, relative to the scratch root (the absolute location of the tree differs)
    pub loc: String,
    pub clock_origin_s: i64,
    pub order: Vec<usize>,
    /// host state left by an earlier build: 0 = clean output directory; 1 = another program was built into the same
    /// output directory first; 2 = same, and the sources are older than what that build left behind
    #[serde(default)]
    pub pre_build: u8,
    /// how the output directory is spelled on the command line: "out" | "./out" | "abs" (absolute path of the same directory)
    #[serde(default)]
    pub out_spelling: String,
}

type Obs = BTreeMap<String, String>;

// ------------------------------------------------------------------------------------------------ generator

const KNOWN_CRATES: [&str; 10] = ["rand", "regex", "itertools", "anyhow", "log", "bytes", "futures", "chrono", "uuid", "thiserror"];
const UNKNOWN_CRATES: [&str; 6] = ["zz_unknown", "acme_widgets", "foo_bar", "my_local_util", "qux", "another_one"];

fn gen_trait_block(r: &mut Rng, i: u64, src: &mut String, mutant: bool) {
    let m = r.range(2, 5);
    src.push_str(&format!("trait T{i}:\n"));
    for j in 0..m {
        src.push_str(&format!("    def tm{i}_{j}(self) -> int: ...\n"));
    }
    src.push('\n');
    let kw = if r.chance(1, 2) { "class" } else { "model" };
    src.push_str(&format!("{kw} C{i} with T{i}:\n    x: int\n\n"));
    for j in 0..m {
        if mutant && (j >= 1 || m == 2) && r.chance(3, 4) {
            if r.chance(1, 3) {
                // wrong signature instead of missing
                src.push_str(&format!("    def tm{i}_{j}(self) -> str:\n        return \"s\"\n\n"));
            }
            continue;
        }
        src.push_str(&format!("    def tm{i}_{j}(self) -> int:\n        return self.x + {j}\n\n"));
    }
}

fn gen_model_block(r: &mut Rng, i: u64, src: &mut String, uses: &mut Vec<String>, mutant: bool) {
    let n = r.range(3, 6);
    if r.chance(1, 2) {
        let derives = *r.pick(&["Debug, Clone", "Debug, Clone, Eq", "Debug, Clone, Serialize, Deserialize", "Debug, Clone, Eq, Hash, Default", "Ord", "Eq, Ord", "Debug, Ord, Hash", "Clone, PartialOrd"]);
        src.push_str(&format!("@derive({derives})\n"));
    }
    src.push_str(&format!("model P{i}:\n"));
    let names = ["alpha", "beta", "gamma", "delta", "omega", "kappa"];
    let mut args = Vec::new();
    for j in 0..n as usize {
        let (ty, val) = *r.pick(&[("int", "1"), ("str", "\"s\""), ("bool", "true"), ("float", "1.5")]);
        src.push_str(&format!("    {}{i}: {ty}\n", names[j]));
        args.push(format!("{}{i}={val}", names[j]));
    }
    src.push('\n');
    if mutant {
        let keep = r.below(2) as usize;
        uses.push(format!("    p{i} = P{i}({})\n", args[..keep].join(", ")));
    } else {
        uses.push(format!("    p{i} = P{i}({})\n", args.join(", ")));
    }
}

fn gen_enum_block(i: u64, src: &mut String) {
    src.push_str(&format!("enum E{i}:\n    Red\n    Green\n    Blue\n\n"));
}

/// Blocks aimed at the emitter's metadata maps: string consts referring to each other, newtypes (with and without a
/// validation hook), enums whose variants carry fields, models with defaults, a class with several methods.
fn gen_emitter_block(r: &mut Rng, i: u64, src: &mut String, uses: &mut Vec<String>) {
    match r.below(5) {
        0 => {
            // usually short, sometimes long enough to exceed any small internal bound on folding depth
            let n = match r.below(6) {
                0 => r.range(9, 30),
                1 => r.range(30, 160), // far beyond any plausible internal depth bound
                _ => r.range(2, 5),
            };
            src.push_str(&format!("const BASE{i}: str = \"base{i}\"\n"));
            for j in 0..n {
                let prev = if j == 0 { format!("BASE{i}") } else { format!("PART{i}_{}", j - 1) };
                src.push_str(&format!("const PART{i}_{j}: str = {prev} + \"-{j}\"\n"));
            }
            src.push_str(&format!("const NUM{i}: int = {}\n\n", r.below(100)));
            uses.push(format!("    s{i} = PART{i}_{}\n", n - 1));
        }
        1 => {
            let n = r.range(2, 4);
            for j in 0..n {
                if r.chance(1, 2) {
                    src.push_str(&format!("type Nt{i}x{j} = newtype int\n\n"));
                } else {
                    src.push_str(&format!("type Nt{i}x{j} = newtype int:\n    def from_underlying(n: int) -> Result[Nt{i}x{j}, str]:\n        if n < 0:\n            return Err(\"negative\")\n        return Ok(Nt{i}x{j}(n))\n\n"));
                }
                uses.push(format!("    nt{i}x{j} = Nt{i}x{j}({j})\n"));
            }
        }
        2 => {
            src.push_str(&format!("enum Shape{i}:\n    Circle(int)\n    Rect(int, int)\n    Tri(int, int, int)\n    Empty\n\n"));
            src.push_str(&format!("def area{i}(s: Shape{i}) -> int:\n    match s:\n        Shape{i}.Circle(r) => return r\n        Shape{i}.Rect(w, h) => return w * h\n        Shape{i}.Tri(a, b, c) => return a + b + c\n        Shape{i}.Empty => return 0\n\n"));
            uses.push(format!("    a{i} = area{i}(Shape{i}.Rect(2, 3))\n"));
        }
        3 => {
            src.push_str(&format!("@derive(Debug, Clone, Default)\nmodel Cfg{i}:\n    host: str = \"localhost\"\n    port: int = 80\n    debug: bool = false\n    ratio: float = 0.5\n\n"));
            uses.push(format!("    c{i} = Cfg{i}(port=8080)\n"));
        }
        _ => {
            src.push_str(&format!("class Counter{i}:\n    n: int\n    step: int = 1\n\n    def get(self) -> int:\n        return self.n\n\n    def bump(mut self) -> None:\n        self.n = self.n + self.step\n\n    def twice(self) -> int:\n        return self.n * 2\n\n"));
            uses.push(format!("    mut k{i} = Counter{i}(n=1)\n    k{i}.bump()\n"));
        }
    }
}

pub fn gen_program(seed: u64) -> Program {
    let mut r = Rng::new(seed);
    let mut files: Vec<(String, String)> = Vec::new();
    let mut main = String::new();
    let mut uses: Vec<String> = Vec::new();
    let mut targets = Vec::new();
    let flavour = r.below(8);
    let mutant = r.chance(2, 5);
    // rust:: imports (Cargo.toml dependency table)
    if flavour <= 2 || r.chance(1, 3) {
        let k = r.range(2, 6);
        let mut pool: Vec<&str> = KNOWN_CRATES.iter().chain(UNKNOWN_CRATES.iter()).cloned().collect();
        r.shuffle(&mut pool);
        for c in pool.iter().take(k as usize) {
            if r.chance(1, 3) {
                main.push_str(&format!("from rust::{c} import Thing{}\n", r.below(9)));
            } else {
                main.push_str(&format!("import rust::{c}\n"));
            }
        }
        targets.push("rust_crate_deps".to_string());
    }
    // multi-file imports
    let multi = flavour >= 5;
    if multi {
        let nested = r.chance(1, 2);
        let nmods = r.range(2, 4);
        let nmods = if nested && r.chance(1, 2) { nmods + 2 } else { nmods };
        let same_name_clash = r.chance(1, 3);
        for m in 0..nmods {
            let (path, import) = if nested && m % 2 == 1 {
                // siblings share `shared_pkg/` (several entries in one directory's module list), some live deeper
                match r.below(3) {
                    0 => (format!("pkg{m}/mod{m}.incn"), format!("from pkg{m}.mod{m} import helper{m}, Item{m}\n")),
                    1 => (format!("shared_pkg/mod{m}.incn"), format!("from shared_pkg.mod{m} import helper{m}, Item{m}\n")),
                    _ => (format!("shared_pkg/inner/mod{m}.incn"), format!("from shared_pkg.inner.mod{m} import helper{m}, Item{m}\n")),
                }
            } else if nested && m % 2 == 0 && m > 0 {
                (format!("shared_pkg/mod{m}.incn"), format!("import shared_pkg::mod{m}::helper{m}\nimport shared_pkg::mod{m}::Item{m}\n"))
            } else if r.chance(1, 2) {
                (format!("mod{m}.incn"), format!("from mod{m} import helper{m}, Item{m}\n"))
            } else {
                (format!("mod{m}.incn"), format!("import mod{m}::helper{m}\nimport mod{m}::Item{m}\n"))
            };
            let mut body = String::new();
            body.push_str(&format!("pub model Item{m}:\n    id: int\n    label: str\n\n"));
            body.push_str(&format!("pub def helper{m}(x: int) -> int:\n    return x + {m}\n\n"));
            body.push_str(&format!("def private{m}() -> int:\n    return {m}\n"));
            if same_name_clash {
                // one module exports `describe(str)`, another keeps a private `describe(int)`: whichever signature the
                // compiler consults at the call site must not depend on the order modules happened to be collected in
                if m == 0 {
                    body.push_str("\npub def describe(label: str) -> str:\n    return label\n");
                } else {
                    body.push_str(&format!("\ndef describe(n: int) -> int:\n    return n + {m}\n"));
                }
            }
            if mutant && r.chance(1, 4) {
                // a syntax or lexical error inside an imported module: its diagnostics name the module's file
                body.push_str(if r.chance(1, 2) { "\ndef broken_dep( -> int:\n    return 1\n" } else { "\ndef broken_dep() -> int:\n    return 1 $ 2\n" });
                targets.push("dependency diagnostics".to_string());
            }
            files.push((path.clone(), body));
            main.push_str(&import);
            if same_name_clash && m == 0 {
                let modpath = path.trim_end_matches(".incn").replace('/', ".");
                main.push_str(&format!("from {modpath} import describe\n"));
                uses.push("    d = describe(\"widget\")\n".to_string());
                targets.push("function registry merge".to_string());
            }
            uses.push(format!("    v{m} = helper{m}({m})\n    it{m} = Item{m}(id={m}, label=\"l\")\n"));
        }
        targets.push("modules".to_string());
    }
    main.push('\n');
    let nblocks = r.range(1, 4);
    for i in 0..nblocks {
        match r.below(3) {
            0 => {
                gen_trait_block(&mut r, i, &mut main, mutant);
                if mutant {
                    targets.push("trait_info.methods".to_string());
                }
            }
            1 => {
                gen_model_block(&mut r, i, &mut main, &mut uses, mutant);
                if mutant {
                    targets.push("ctor fields".to_string());
                }
            }
            _ => gen_enum_block(i, &mut main),
        }
    }
    for i in 0..r.below(4) {
        gen_emitter_block(&mut r, 10 + i, &mut main, &mut uses);
        targets.push("emitter metadata maps".to_string());
    }
    if r.chance(1, 4) {
        main.push_str("async def fetch(n: int) -> int:\n    return n\n\n");
    }
    if mutant && r.chance(1, 2) {
        main.push_str("def broken_a() -> int:\n    return undefined_name_a\n\ndef broken_b() -> int:\n    return undefined_name_b + other_missing\n\n");
    }
    if mutant {
        // more constructs that report several errors at once (their order must not depend on the process)
        match r.below(6) {
            0 => {
                // @requires fields missing from the adopter, several traits
                main.push_str("@requires(name: str, level: int, tag: str)\ntrait Loggable9:\n    def log(self) -> None:\n        println(self.name)\n\n@requires(count: int, step: int)\ntrait Counter9:\n    def bump(mut self) -> None:\n        self.count += 1\n\nclass Service9 with Loggable9, Counter9:\n    other: int\n\n");
                targets.push("trait requires".to_string());
            }
            1 => {
                // non-exhaustive match: several variants missing
                main.push_str("enum Dir9:\n    North\n    East\n    South\n    West\n    Up\n\ndef turn9(d: Dir9) -> int:\n    match d:\n        Dir9.North => return 1\n\n");
                targets.push("match exhaustiveness".to_string());
            }
            2 => {
                // unknown and duplicated constructor fields
                main.push_str("model Pt9:\n    x: int\n    y: int\n\ndef mk9() -> Pt9:\n    return Pt9(x=1, y=2, z=3, w=4, q=5)\n\n");
                targets.push("unknown ctor fields".to_string());
            }
            3 => {
                // wrong types in several arguments and a wrong argument count
                main.push_str("def take9(a: int, b: str, c: bool) -> int:\n    return a\n\ndef call9() -> int:\n    u = take9(\"s\", 1, 2)\n    v = take9(1)\n    return u + v\n\n");
                targets.push("call argument errors".to_string());
            }
            4 => {
                // const cycle and const type mismatch
                main.push_str("const CA9: int = CB9 + 1\nconst CB9: int = CC9 + 1\nconst CC9: int = CA9 + 1\nconst CS9: int = \"text\"\n\n");
                targets.push("const evaluation".to_string());
            }
            _ => {}
        }
    }
    main.push_str("def main() -> None:\n");
    if uses.is_empty() {
        main.push_str("    pass\n");
    }
    for u in &uses {
        main.push_str(u);
    }
    // sloppy formatting on purpose so that fmt --diff has something to say
    if r.chance(1, 2) {
        main = main.replace(" -> int:", "  ->  int:").replace("x + ", "x+");
    }
    if r.chance(1, 5) {
        // two files (and two directories) whose names differ only in letter case: a total order over names is needed
        files.push(("Notes.incn".to_string(), "def   upper_notes( ) -> int:\n    return 1\n".to_string()));
        files.push(("notes.incn".to_string(), "def   lower_notes( ) -> int:\n    return 2\n".to_string()));
        files.push(("Extra/side.incn".to_string(), "def   upper_side( ) -> int:\n    return 3\n".to_string()));
        files.push(("extra/side.incn".to_string(), "def   lower_side( ) -> int:\n    return 4\n".to_string()));
        targets.push("directory walk order".to_string());
    }
    if r.chance(1, 4) {
        // several files that cannot be formatted (syntax / lexical errors): the error path of a directory run
        for (i, name) in ["a_big.incn", "c_bad.incn", "pkgz/e_bad.incn", "y_bad.incn", "m_bad.incn"].iter().enumerate() {
            let pad = if i == 0 { "# filler\n".repeat(400) } else { String::new() };
            files.push((name.to_string(), format!("{pad}def broken_{i}( -> int:\n    return {i}\n")));
        }
        targets.push("fmt error path".to_string());
    }
    files.push(("main.incn".to_string(), main));
    targets.sort();
    targets.dedup();
    Program { name: format!("gen-{seed:016x}"), kind: if mutant { "generated-mutant" } else { "generated" }.into(), files, entry: "main.incn".into(), targets }
}

/// Test-runner flavoured program: several fixtures and tests (for `incan test -v`).
pub fn gen_test_program(seed: u64) -> Program {
    let mut r = Rng::new(seed);
    let mut s = String::new();
    let nf = r.range(2, 5);
    for i in 0..nf {
        let auto = if r.chance(1, 3) { "(autouse=true)" } else { "" };
        s.push_str(&format!("@fixture{auto}\ndef fx{i}() -> int:\n    return {i}\n\n"));
    }
    let nt = r.range(1, 3);
    for i in 0..nt {
        s.push_str(&format!("def test_t{i}(fx0: int) -> None:\n    assert_eq(fx0, 0)\n\n"));
    }
    Program {
        name: format!("gentest-{seed:016x}"),
        kind: "generated-tests".into(),
        files: vec![("test_gen.incn".to_string(), s)],
        entry: "test_gen.incn".into(),
        targets: vec!["all_fixtures".into()],
    }
}

pub fn gen_world(r: &mut Rng, k: usize, nnodes: usize) -> World {
    let mut env: Vec<(String, String)> = Vec::new();
    let homes = ["/root", "/home/alice", "/Users/bob", "/nonexistent"];
    let langs = ["C", "en_US.UTF-8", "de_DE.UTF-8", "tr_TR.UTF-8", "ja_JP.eucJP"];
    let tzs = ["UTC", "America/Los_Angeles", "Asia/Kolkata", "Pacific/Chatham"];
    env.push(("HOME".into(), r.pick(&homes).to_string()));
    env.push(("LANG".into(), r.pick(&langs).to_string()));
    if r.chance(1, 2) {
        env.push(("LC_ALL".into(), r.pick(&langs).to_string()));
    }
    env.push(("TZ".into(), r.pick(&tzs).to_string()));
    env.push(("TERM".into(), r.pick(&["xterm-256color", "dumb", "vt100"]).to_string()));
    env.push(("USER".into(), r.pick(&["root", "alice", "ci"]).to_string()));
    env.push(("TMPDIR".into(), r.pick(&["/tmp", "/var/tmp", "/dev/shm"]).to_string()));
    env.push(("COLUMNS".into(), r.range(20, 300).to_string()));
    for i in 0..r.below(4) {
        env.push((format!("VERIF_RANDOM_VAR_{i}"), format!("{:x}", r.next())));
    }
    if r.chance(1, 2) {
        env.push(("CARGO_HOME".into(), r.pick(&["/root/.cargo", "/opt/cargo", "/nonexistent/cargo"]).to_string()));
    }
    if r.chance(1, 3) {
        env.push(("CARGO_TARGET_DIR".into(), r.pick(&["/tmp/shared-target", "target-alt"]).to_string()));
    }
    if r.chance(1, 3) {
        env.push(("LOGNAME".into(), r.pick(&["root", "builder", "someone"]).to_string()));
    }
    if r.chance(1, 2) {
        // what cargo exports to every build script, `cargo run`, `cargo test` and subcommand it starts
        env.push(("CARGO_MANIFEST_DIR".into(), r.pick(&["/work/other_pkg", "/home/alice/proj", "/nonexistent"]).to_string()));
        env.push(("CARGO_PKG_NAME".into(), r.pick(&["other_pkg", "proj"]).to_string()));
        env.push(("CARGO".into(), "/root/.cargo/bin/cargo".to_string()));
    }
    if r.chance(1, 4) {
        env.push(("OUT_DIR".into(), "/tmp/some-build-script-out".to_string()));
    }
    let depth = r.below(3);
    let mut loc = format!("w{k}");
    for d in 0..depth {
        loc.push_str(&format!("/{}", r.pick(&["a", "deep dir", "x.y", "ünï", "proj"])));
        let _ = d;
    }
    let mut order: Vec<usize> = (0..nnodes).collect();
    r.shuffle(&mut order);
    // world 0 is always the clean reference
    let pre_build = if k == 0 { 0 } else { *r.pick(&[0u8, 0, 1, 2, 2]) };
    let out_spelling = if k == 0 { "out".to_string() } else { r.pick(&["out", "out", "./out", "abs"]).to_string() };
    World { hash_seed: r.next() | 1, env, loc, clock_origin_s: r.range(0, 4_000_000_000) as i64, order, pre_build, out_spelling }
}

// ------------------------------------------------------------------------------------------------ observation

fn set_process_env(fakebin: &Path, env: &[(String, String)]) {
    let keys: Vec<String> = std::env::vars_os().map(|(k, _)| k.to_string_lossy().to_string()).collect();
    for k in keys {
        // malloc tuning of the worker itself is not host state of interest; keep it
        if k.starts_with("MALLOC_") {
            continue;
        }
        std::env::remove_var(&k);
    }
    // No `cargo` on PATH for in-process worlds: `build_file` has written the whole project by the time it tries to spawn
    // cargo, the spawn fails at once with a deterministic error, and no process is created (exec costs ~10 ms here).
    let _ = fakebin;
    std::env::set_var("PATH", "/nonexistent-verif-bin");
    for (k, v) in env {
        std::env::set_var(k, v);
    }
}

fn set_mtime(p: &Path, secs: i64) {
    if let Ok(c) = std::ffi::CString::new(p.to_string_lossy().as_bytes()) {
        let ts = [libc::timespec { tv_sec: secs, tv_nsec: 0 }, libc::timespec { tv_sec: secs, tv_nsec: 0 }];
        unsafe {
            libc::utimensat(libc::AT_FDCWD, c.as_ptr(), ts.as_ptr(), 0);
        }
    }
}

fn cli_result(r: incan::cli::CliResult<incan::cli::ExitCode>) -> String {
    match r {
        Ok(c) => format!("exit {}", c.0),
        Err(e) => format!("exit {}\n{}", e.exit_code.0, e.message),
    }
}

/// Run the real pipeline in-process in one world. cwd and env are process-global: one world at a time per worker.
pub fn observe_inproc(p: &Program, w: &World, scratch: &Path, fakebin: &Path) -> Result<Obs, String> {
    let root = scratch.join(&w.loc);
    let proj = root.join("proj");
    let tree = Tree::from_files(&p.files);
    tree.materialise(&proj, Some(&w.order));
    set_process_env(fakebin, &w.env);
    if let Err(e) = std::env::set_current_dir(&root) {
        simcore::harness_error(&format!("chdir {}: {e}", root.display()));
    }
    let entry = format!("proj/{}", p.entry);
    let files: Vec<String> = {
        let mut f: Vec<String> = p.files.iter().map(|(n, _)| n.clone()).collect();
        f.sort();
        f
    };
    let root2 = root.clone();
    let pre_build = w.pre_build;
    let out_spelling = w.out_spelling.clone();
    let tree2 = tree.clone();
    let order2 = w.order.clone();
    let entry_rel = p.entry.clone();
    let r = par::instance(w.hash_seed, Some(w.clock_origin_s as i128 * 1_000_000_000), move || {
        let mut o: Obs = BTreeMap::new();
        if pre_build > 0 {
            // an earlier build of a *different* program into the same output directory (same entry file name)
            let decoy = "def leftover_from_previous_build() -> int:\n    return 12345\n\ndef main() -> None:\n    println(\"decoy program\")\n";
            let _ = std::fs::write(root2.join("proj").join(&entry_rel), decoy);
            let _ = incan::cli::commands::build_file(&entry, Some(&"out".to_string()));
            tree2.materialise(&root2.join("proj"), Some(&order2));
            if pre_build == 2 {
                // the sources were last touched long before that build
                for (rel, _) in &tree2.nodes {
                    set_mtime(&root2.join("proj").join(rel), 1_000_000_000);
                }
            }
        }
        o.insert("canary".into(), simcore::interpose::canary_order());
        o.insert("check".into(), cli_result(incan::cli::commands::check_file(&entry)));
        let out_arg = match out_spelling.as_str() {
            "./out" => "./out".to_string(),
            "abs" => root2.join("out").to_string_lossy().to_string(),
            _ => "out".to_string(),
        };
        // (the spelling of the output directory is echoed in build_file's own messages; mask it there)
        let mut build_msg = cli_result(incan::cli::commands::build_file(&entry, Some(&out_arg)));
        if out_arg != "out" {
            build_msg = build_msg.replace(&out_arg, "out");
        }
        o.insert("build".into(), build_msg);
        for (rel, bytes) in world::read_tree(&root2.join("out")) {
            if rel.starts_with("target/") {
                continue;
            }
            o.insert(format!("out:{rel}"), String::from_utf8_lossy(&bytes).to_string());
        }
        match incan::cli::commands::collect_modules(&entry) {
            Ok(ms) => {
                o.insert("modules".into(), ms.iter().map(|m| format!("{}={}", m.name, m.path_segments.join("/"))).collect::<Vec<_>>().join(","));
            }
            Err(e) => {
                o.insert("modules".into(), format!("ERR {}", e.message));
            }
        }
        for f in &files {
            if let Ok(src) = std::fs::read_to_string(root2.join("proj").join(f)) {
                o.insert(format!("fmt:{f}"), match incan::format_source(&src) {
                    Ok(s) => s,
                    Err(e) => format!("ERR {e:?}"),
                });
                o.insert(format!("diff:{f}"), match incan::format_diff(&src) {
                    Ok(Some(d)) => d,
                    Ok(None) => "(none)".into(),
                    Err(e) => format!("ERR {e:?}"),
                });
            }
        }
        o.insert("clock_readings".into(), "masked".into());
        o
    });
    let _ = std::env::set_current_dir("/");
    let _ = std::fs::remove_dir_all(&root);
    r
}

/// The same program through real subprocesses of the tree's CLI (hash keys via the LD_PRELOAD shim).
pub fn observe_subproc(p: &Program, w: &World, scratch: &Path, fakebin: &Path) -> Obs {
    let root = scratch.join(&w.loc);
    let proj = root.join("proj");
    let tree = Tree::from_files(&p.files);
    tree.materialise(&proj, Some(&w.order));
    let mut extra = w.env.clone();
    extra.push(("VERIF_CLOCK_OFFSET_S".into(), (w.clock_origin_s % 1_000_000).to_string()));
    let env = world::cli_env(fakebin, Some(w.hash_seed), &extra);
    let entry = format!("proj/{}", p.entry);
    let mut o: Obs = BTreeMap::new();
    let cli = world::cli_path();
    let mut cmds: Vec<(&str, Vec<String>)> = vec![
        ("check", vec!["--no-banner".into(), "--color".into(), "never".into(), "--check".into(), entry.clone()]),
        ("emit-rust", vec!["--no-banner".into(), "--color".into(), "never".into(), "--emit-rust".into(), entry.clone()]),
        ("build", vec!["--no-banner".into(), "--color".into(), "never".into(), "build".into(), entry.clone(), "out".into()]),
        ("fmt-diff", vec!["--no-banner".into(), "--color".into(), "never".into(), "fmt".into(), "--diff".into(), "proj".into()]),
        ("fmt-check", vec!["--no-banner".into(), "--color".into(), "never".into(), "fmt".into(), "--check".into(), "proj".into()]),
    ];
    if p.files.len() == 1 && p.kind != "generated-tests" {
        // the same source as inline code: `incan run -c CODE` (cargo is the stub, nothing is executed)
        cmds.push(("run-c", vec!["--no-banner".into(), "--color".into(), "never".into(), "run".into(), "-c".into(), p.files[0].1.clone()]));
    }
    if p.kind == "generated-tests" {
        cmds = vec![(
            "test-v",
            vec!["--no-banner".into(), "--color".into(), "never".into(), "test".into(), "-v".into(), "proj".into()],
        )];
    }
    for (name, args) in cmds {
        let r = world::run_proc(&cli, &args, &root, &env, 60_000);
        if let Some(e) = &r.spawn_error {
            simcore::harness_error(&format!("cannot spawn {}: {e}", cli.display()));
        }
        if r.timed_out {
            o.insert(format!("{name}.status"), "TIMEOUT".into());
            continue;
        }
        o.insert(format!("{name}.status"), format!("code={:?} signal={:?}", r.code, r.signal));
        o.insert(format!("{name}.stdout"), mask_timings(&r.out_str()));
        o.insert(format!("{name}.stderr"), mask_timings(&r.err_str()));
    }
    for (rel, bytes) in world::read_tree(&root.join("out")) {
        if rel.starts_with("target/") {
            continue;
        }
        o.insert(format!("out:{rel}"), String::from_utf8_lossy(&bytes).to_string());
    }
    // the project `incan run -c` generates below the working directory
    for (rel, bytes) in world::read_tree(&root.join("target/incan")) {
        if rel.contains("/target/") {
            continue;
        }
        o.insert(format!("runc:{rel}"), String::from_utf8_lossy(&bytes).to_string());
    }
    // the per-test harness projects `incan test` generates (target/incan_tests/<fn>/{Cargo.toml,src/main.rs})
    for (rel, bytes) in world::read_tree(&root.join("target/incan_tests")) {
        if rel.contains("/target/") {
            continue;
        }
        o.insert(format!("harness:{rel}"), String::from_utf8_lossy(&bytes).to_string());
    }
    let _ = std::fs::remove_dir_all(&root);
    o
}

/// Durations vary by nature ("in 0.03s", "(12ms)"); every run of digits in such a token becomes one `#`.
pub fn mask_timings(s: &str) -> String {
    fn squash(t: &str) -> String {
        let mut o = String::new();
        let mut in_num = false;
        for c in t.chars() {
            if c.is_ascii_digit() {
                if !in_num {
                    o.push('#');
                }
                in_num = true;
            } else {
                in_num = false;
                o.push(c);
            }
        }
        o
    }
    let mut out = String::new();
    for line in s.lines() {
        let mut l = line.to_string();
        if let Some(p) = l.find(" in ") {
            if l[p..].contains("s ") || l.ends_with('s') {
                l = format!("{} in {}", &l[..p], squash(&l[p + 4..]));
            }
        }
        if l.contains("ms)") {
            if let Some(p) = l.rfind('(') {
                l = format!("{}{}", &l[..p], squash(&l[p..]));
            }
        }
        out.push_str(&l);
        out.push('\n');
    }
    out
}

fn first_diff(a: &Obs, b: &Obs) -> Option<(String, String, String)> {
    let keys: BTreeSet<&String> = a.keys().chain(b.keys()).collect();
    for k in keys {
        // the hash canary is a probe; the internal module collection order is a mechanism, not an output
        if k == "canary" || k == "modules" {
            continue;
        }
        let x = a.get(k).cloned().unwrap_or_else(|| "<absent>".into());
        let y = b.get(k).cloned().unwrap_or_else(|| "<absent>".into());
        if x != y {
            return Some((k.clone(), x, y));
        }
    }
    None
}

fn diff_excerpt(a: &str, b: &str) -> String {
    let la: Vec<&str> = a.lines().collect();
    let lb: Vec<&str> = b.lines().collect();
    for i in 0..la.len().max(lb.len()) {
        let x = la.get(i).copied().unwrap_or("<eof>");
        let y = lb.get(i).copied().unwrap_or("<eof>");
        if x != y {
            return format!("line {}: {:?} vs {:?}", i + 1, x, y);
        }
    }
    "(differs only in line endings)".into()
}

/// Normalise an observation key into what is listed in known findings: which output, not which file.
fn key_class(k: &str) -> String {
    if let Some(rest) = k.strip_prefix("out:") {
        if rest == "Cargo.toml" {
            return "generated Cargo.toml".into();
        }
        return "generated Rust source".into();
    }
    if k.starts_with("harness:") {
        return "generated test harness".into();
    }
    if k.starts_with("runc:") {
        return "project generated by run -c".into();
    }
    if k.starts_with("fmt:") || k.starts_with("diff:") {
        return "formatter output".into();
    }
    match k {
        "check" | "check.stdout" | "check.stderr" | "check.status" => "diagnostics of --check".into(),
        "build" | "build.stdout" | "build.stderr" | "build.status" => "diagnostics of build".into(),
        "modules" => "module collection order".into(),
        _ => k.split('.').next().unwrap_or(k).to_string() + " output",
    }
}

// ------------------------------------------------------------------------------------------------ one case

#[derive(Clone, Debug)]
struct CaseResult {
    nontrivial: bool,
    canaries_differ: bool,
    mismatch: Option<(usize, String, String, String)>, // (world index, key, a, b)
    crashed: Option<String>,
    readdir_differs: bool,
}

fn run_case(p: &Program, worlds: &[World], scratch: &Path, fakebin: &Path, subproc: bool) -> CaseResult {
    let mut obs: Vec<Obs> = Vec::new();
    let mut crashed = None;
    for w in worlds {
        if subproc {
            obs.push(observe_subproc(p, w, scratch, fakebin));
        } else {
            match observe_inproc(p, w, scratch, fakebin) {
                Ok(o) => obs.push(o),
                Err(e) => {
                    crashed = Some(format!("pipeline panicked in world {}: {e}", w.loc));
                    obs.push(BTreeMap::new());
                }
            }
        }
    }
    let canaries: BTreeSet<String> = obs.iter().filter_map(|o| o.get("canary").cloned()).collect();
    let canaries_differ = subproc || canaries.len() > 1;
    let mut mismatch = None;
    for k in 1..obs.len() {
        let mut other = obs[k].clone();
        if worlds[k].pre_build > 0 {
            // files the earlier build left behind and this build does not generate are not output of this compilation
            other.retain(|key, _| !key.starts_with("out:") || obs[0].contains_key(key));
        }
        if let Some((key, a, b)) = first_diff(&obs[0], &other) {
            mismatch = Some((k, key, a, b));
            break;
        }
    }
    let readdir_differs = worlds.windows(2).any(|w| w[0].order != w[1].order);
    CaseResult { nontrivial: !p.targets.is_empty() && canaries_differ, canaries_differ, mismatch, crashed, readdir_differs }
}

/// Reduce the difference between the two worlds to one dimension, if one dimension alone reproduces the mismatch.
fn isolate_dimension(p: &Program, a: &World, b: &World, scratch: &Path, fakebin: &Path, subproc: bool, key: &str) -> (String, World) {
    // two runs in the *same* world (same directory, recreated): if they still differ, no world dimension is to blame
    // but the identity of the process itself (pid, real time)
    if subproc {
        for _ in 0..6 {
            let r = run_case(p, &[a.clone(), a.clone()], scratch, fakebin, subproc);
            if let Some((_, k, _, _)) = &r.mismatch {
                if key_class(k) == key_class(key) {
                    return ("process-identity".to_string(), a.clone());
                }
            }
        }
    }
    let dims = ["hash", "env", "loc", "clock", "readdir", "previous-build", "out-spelling"];
    for d in dims {
        let mut c = a.clone();
        match d {
            "hash" => c.hash_seed = b.hash_seed,
            "env" => c.env = b.env.clone(),
            "loc" => c.loc = format!("{}-alt", b.loc),
            "clock" => c.clock_origin_s = b.clock_origin_s,
            "previous-build" => c.pre_build = b.pre_build,
            "out-spelling" => c.out_spelling = b.out_spelling.clone(),
            _ => c.order = b.order.clone(),
        }
        // `a` and `c` must not share a directory
        let mut a2 = a.clone();
        a2.loc = format!("{}-base", a.loc);
        let r = run_case(p, &[a2, c.clone()], scratch, fakebin, subproc);
        if let Some((_, k, _, _)) = &r.mismatch {
            if key_class(k) == key_class(key) {
                return (d.to_string(), c);
            }
        }
    }
    ("combination".into(), b.clone())
}

/// Drop lines / files of the program while the same output class still differs between the two worlds.
fn minimise_program(p: &Program, a: &World, b: &World, scratch: &Path, fakebin: &Path, subproc: bool, key: &str, budget: &mut u32) -> Program {
    let mut cur = p.clone();
    let still = |q: &Program, budget: &mut u32| -> bool {
        if *budget == 0 {
            return false;
        }
        *budget -= 1;
        let mut a2 = a.clone();
        let mut b2 = b.clone();
        a2.order = (0..q.files.len()).collect();
        b2.order = if b.order == a.order { a2.order.clone() } else { (0..q.files.len()).rev().collect() };
        a2.loc = format!("{}-m0", a.loc);
        b2.loc = format!("{}-m1", b.loc);
        match run_case(q, &[a2, b2], scratch, fakebin, subproc).mismatch {
            Some((_, k, _, _)) => key_class(&k) == key_class(key),
            None => false,
        }
    };
    // files other than the entry
    let mut i = 0;
    while i < cur.files.len() {
        if cur.files[i].0 != cur.entry {
            let mut q = cur.clone();
            q.files.remove(i);
            if still(&q, budget) {
                cur = q;
                continue;
            }
        }
        i += 1;
    }
    // chunks of lines of every file (ddmin-lite)
    for fi in 0..cur.files.len() {
        let mut chunk = (cur.files[fi].1.lines().count() / 2).max(1);
        while chunk >= 1 {
            let mut progressed = false;
            let mut start = 0;
            loop {
                let lines: Vec<String> = cur.files[fi].1.lines().map(|s| s.to_string()).collect();
                if start >= lines.len() {
                    break;
                }
                let end = (start + chunk).min(lines.len());
                let mut kept: Vec<String> = Vec::new();
                kept.extend_from_slice(&lines[..start]);
                kept.extend_from_slice(&lines[end..]);
                let mut q = cur.clone();
                q.files[fi].1 = kept.join("\n") + "\n";
                if !kept.is_empty() && still(&q, budget) {
                    cur = q;
                    progressed = true;
                } else {
                    start = end;
                }
                if *budget == 0 {
                    break;
                }
            }
            if chunk == 1 && !progressed {
                break;
            }
            chunk = if progressed { chunk } else { chunk / 2 };
            if *budget == 0 {
                break;
            }
        }
    }
    cur
}

// ------------------------------------------------------------------------------------------------ batch

fn budgets(t: Tier) -> (u64, u64, usize, usize) {
    // (generated in-process programs, subprocess programs, worlds in-process, worlds subprocess)
    match t {
        Tier::Quick => (simcore::scaled(1500), simcore::scaled(64), 4, 2),
        Tier::Thorough => (simcore::scaled(40_000), simcore::scaled(1_000), 6, 3),
    }
}

/// Case i of the batch: (program, subprocess?) — corpus first, then generated.
fn case_program(root: u64, i: u64, corpus: &[world::CorpusProgram], n_inproc: u64) -> (Program, bool) {
    let nc = corpus.len() as u64;
    if i < nc {
        let c = &corpus[i as usize];
        return (Program { name: c.name.clone(), kind: "corpus".into(), files: c.files.clone(), entry: c.entry.clone(), targets: vec![] }, false);
    }
    if i < nc + n_inproc {
        return (gen_program(mix(root, "C12-prog", i)), false);
    }
    // subprocess cases: a third test-runner programs, a sixth corpus programs, the rest generated
    let j = i - nc - n_inproc;
    let seed = mix(root, "C12-sub", j);
    match j % 6 {
        0 | 3 => (gen_test_program(seed), true),
        1 if nc > 0 => {
            let c = &corpus[(seed % nc) as usize];
            (Program { name: c.name.clone(), kind: "corpus".into(), files: c.files.clone(), entry: c.entry.clone(), targets: vec![] }, true)
        }
        _ => (gen_program(seed), true),
    }
}

fn worlds_for(root: u64, i: u64, n: usize, nnodes: usize) -> Vec<World> {
    let mut r = Rng::new(mix(root, "C12-worlds", i));
    (0..n).map(|k| gen_world(&mut r, k, nnodes)).collect()
}

/// Subprocess cases also repeat world 0 (same directory, recreated): what one world prints must not vary between runs.
fn with_repeat(mut w: Vec<World>, subproc: bool) -> Vec<World> {
    if subproc && !w.is_empty() {
        let again = w[0].clone();
        w.insert(1, again);
    }
    w
}

pub fn silence_stdout() -> i32 {
    unsafe {
        let saved = libc::dup(1);
        let devnull = libc::open(b"/dev/null\0".as_ptr() as *const libc::c_char, libc::O_WRONLY);
        if devnull >= 0 {
            libc::dup2(devnull, 1);
            libc::close(devnull);
        }
        saved
    }
}

pub fn restore_stdout(saved: i32) {
    use std::io::Write;
    let _ = std::io::stdout().flush();
    unsafe {
        libc::dup2(saved, 1);
        libc::close(saved);
    }
}

fn worker(args: &[String], spec: par::WorkerSpec) {
    par::install_quiet_panic_hook();
    let saved_env: Vec<(String, String)> = std::env::vars().collect();
    let root = simcore::root_seed(args);
    let tier = simcore::tier(args);
    let (n_in, n_sub, w_in, w_sub) = budgets(tier);
    let corpus = world::corpus();
    let total = corpus.len() as u64 + n_in + n_sub;
    let scratch = simcore::lsp::scratch_root(&format!("c12-w{}", spec.index));
    let fakebin = world::fakebin_dir(&scratch);
    let saved = silence_stdout();
    let mut viol: Vec<Value> = Vec::new();
    let mut counters: BTreeMap<String, u64> = BTreeMap::new();
    let mut nontrivial: BTreeSet<String> = BTreeSet::new();
    let mut samples: Vec<Value> = Vec::new();
    let mut done = 0u64;
    let mut i = spec.index;
    while i < total {
        let (p, subproc) = case_program(root, i, &corpus, n_in);
        let worlds = with_repeat(worlds_for(root, i, if subproc { w_sub } else { w_in }, p.files.len()), subproc);
        let r = run_case(&p, &worlds, &scratch, &fakebin, subproc);
        done += 1;
        *counters.entry(format!("cases_{}", if subproc { "subprocess" } else { "inprocess" })).or_insert(0) += 1;
        *counters.entry(format!("kind_{}", p.kind)).or_insert(0) += 1;
        *counters.entry("world_executions".into()).or_insert(0) += worlds.len() as u64;
        *counters.entry("cases_with_differing_hash_canary".into()).or_insert(0) += r.canaries_differ as u64;
        *counters.entry("cases_with_differing_readdir_order".into()).or_insert(0) += (r.readdir_differs && p.files.len() > 1) as u64;
        *counters.entry("worlds_with_leftover_output_dir".into()).or_insert(0) += worlds.iter().filter(|w| w.pre_build > 0 && !subproc).count() as u64;
        *counters.entry("worlds_with_sources_older_than_leftovers".into()).or_insert(0) += worlds.iter().filter(|w| w.pre_build == 2 && !subproc).count() as u64;
        for t in &p.targets {
            *counters.entry(format!("target_{t}")).or_insert(0) += 1;
        }
        if r.nontrivial {
            nontrivial.insert(format!("{:x}", fnv(serde_json::to_string(&p.files).unwrap_or_default().as_bytes())));
            if samples.len() < 2 {
                samples.push(json!({"case": i, "program": p.name, "kind": p.kind, "targets": p.targets, "entry_source": p.files.iter().find(|f| f.0 == p.entry).map(|f| f.1.clone()), "worlds": worlds.iter().map(|w| json!({"hash_seed": w.hash_seed, "loc": w.loc, "env": w.env.len(), "clock_origin_s": w.clock_origin_s, "order": w.order})).collect::<Vec<_>>()}));
            }
        }
        if let Some(c) = &r.crashed {
            viol.push(json!({"index": i, "class": "crash", "key": "panic", "detail": c, "subproc": subproc}));
        } else if let Some((k, key, a, b)) = &r.mismatch {
            viol.push(json!({"index": i, "class": "nondeterministic-output", "key": key, "world": k, "detail": format!("{} differs between world 0 and world {k}: {}", key, diff_excerpt(a, b)), "subproc": subproc}));
        }
        i += spec.count;
    }
    restore_stdout(saved);
    for (k, v) in saved_env {
        std::env::set_var(k, v);
    }
    let _ = std::fs::remove_dir_all(&scratch);
    par::emit_worker_result(&json!({"runs": done, "violations": viol, "counters": counters, "nontrivial": nontrivial, "samples": samples}));
}

pub fn main(args: &[String]) {
    if let Some(idx) = simcore::arg_value(args, "--show").and_then(|s| s.parse::<u64>().ok()) {
        // debugging aid: run one case and print the first differing observation in full
        par::install_quiet_panic_hook();
        let root = simcore::root_seed(args);
        let (n_in, _, w_in, w_sub) = budgets(simcore::tier(args));
        let corpus = world::corpus();
        let (p, subproc) = case_program(root, idx, &corpus, n_in);
        let worlds = worlds_for(root, idx, if subproc { w_sub } else { w_in }, p.files.len());
        let scratch = simcore::lsp::scratch_root("c12-show");
        let fakebin = world::fakebin_dir(&scratch);
        let saved = silence_stdout();
        let r = run_case(&p, &worlds, &scratch, &fakebin, subproc);
        restore_stdout(saved);
        let _ = std::fs::remove_dir_all(&scratch);
        println!("program {} ({}) subproc={subproc}\n{:#?}", p.name, p.kind, p.files);
        match r.mismatch {
            Some((k, key, a, b)) => println!("MISMATCH world {k} key {key}\n--- world 0\n{a}\n--- world {k}\n{b}"),
            None => println!("no mismatch"),
        }
        return;
    }
    if let Some(spec) = par::worker_spec(args) {
        worker(args, spec);
        return;
    }
    let t0 = std::time::Instant::now();
    par::install_quiet_panic_hook();
    let tier = simcore::tier(args);
    let root = simcore::root_seed(args);
    let nw = par::nworkers(args);
    let results = par::run_workers(args, nw);
    let (n_in, _n_sub, w_in, w_sub) = budgets(tier);
    let corpus = world::corpus();
    let mut total = 0u64;
    let mut counters: BTreeMap<String, u64> = BTreeMap::new();
    let mut nontrivial: BTreeSet<String> = BTreeSet::new();
    let mut samples: Vec<Value> = Vec::new();
    let mut viols: Vec<Value> = Vec::new();
    for r in &results {
        total += r["runs"].as_u64().unwrap_or(0);
        report::add_counters(&mut counters, &r["counters"]);
        for n in r["nontrivial"].as_array().cloned().unwrap_or_default() {
            nontrivial.insert(n.as_str().unwrap_or("").to_string());
        }
        samples.extend(r["samples"].as_array().cloned().unwrap_or_default());
        viols.extend(r["violations"].as_array().cloned().unwrap_or_default());
    }
    // samples are the lowest-numbered qualifying cases, whatever the worker count
    samples.sort_by_key(|x| x["case"].as_u64().unwrap_or(u64::MAX));
    samples.truncate(3);
    viols.sort_by_key(|v| v["index"].as_u64().unwrap_or(0));
    // confirm, isolate the dimension, minimise the program: first two cases per output class
    let scratch = simcore::lsp::scratch_root("c12-parent");
    let fakebin = world::fakebin_dir(&scratch);
    let saved_env: Vec<(String, String)> = std::env::vars().collect();
    let saved = silence_stdout();
    let mut per_class: BTreeMap<String, u32> = BTreeMap::new();
    let mut class_counts: BTreeMap<String, u64> = BTreeMap::new();
    let mut out_viol: Vec<Violation> = Vec::new();
    for v in &viols {
        let key = v["key"].as_str().unwrap_or("").to_string();
        let kc = if v["class"] == "crash" { "crash".to_string() } else { key_class(&key) };
        *class_counts.entry(kc.clone()).or_insert(0) += 1;
        let n = per_class.entry(kc.clone()).or_insert(0);
        if *n >= 2 {
            continue;
        }
        *n += 1;
        let idx = v["index"].as_u64().unwrap_or(0);
        let subproc = v["subproc"].as_bool().unwrap_or(false);
        let (p, _) = case_program(root, idx, &corpus, n_in);
        let worlds = with_repeat(worlds_for(root, idx, if subproc { w_sub } else { w_in }, p.files.len()), subproc);
        let mut again = run_case(&p, &worlds, &scratch, &fakebin, subproc);
        if v["class"] != "crash" && again.mismatch.is_none() && subproc {
            // real processes: an output that differs only sometimes is nondeterministic output; look again a few times
            for _ in 0..8 {
                again = run_case(&p, &worlds, &scratch, &fakebin, subproc);
                if again.mismatch.is_some() {
                    break;
                }
            }
        }
        if v["class"] == "crash" {
            if again.crashed.is_none() {
                restore_stdout(saved);
                simcore::harness_error(&format!("case {idx}: crash did not reproduce when re-run: nondeterminism in the simulator"));
            }
            out_viol.push(Violation {
                property: PROPERTY.into(),
                class: "crash".into(),
                fingerprint: format!("crash|{}", p.kind),
                seed: root,
                detail: v["detail"].as_str().unwrap_or("").to_string(),
                replay: json!({"engine": "worldsim", "check": "C12", "expect_class": "crash", "subproc": subproc, "program": p, "worlds": worlds}),
            });
            continue;
        }
        let Some((k, key2, _, _)) = again.mismatch.clone() else {
            restore_stdout(saved);
            simcore::harness_error(&format!("case {idx}: mismatch in {key} did not reproduce when re-run: nondeterminism in the simulator"));
        };
        let (dim, wb) = isolate_dimension(&p, &worlds[0], &worlds[k], &scratch, &fakebin, subproc, &key2);
        let mut budget = if subproc { 30 } else if tier == Tier::Quick { 120 } else { 400 };
        let mp = minimise_program(&p, &worlds[0], &wb, &scratch, &fakebin, subproc, &key2, &mut budget);
        let mut wa = worlds[0].clone();
        let mut wb2 = wb.clone();
        wa.order = (0..mp.files.len()).collect();
        wb2.order = if wb.order == worlds[0].order { wa.order.clone() } else { (0..mp.files.len()).rev().collect() };
        wa.loc = "w0".into();
        if dim == "process-identity" {
            wb2.loc = "w0".into();
        } else if wb2.loc == wa.loc || dim != "loc" {
            wb2.loc = "w1".into();
        }
        let fin = run_case(&mp, &[wa.clone(), wb2.clone()], &scratch, &fakebin, subproc);
        let detail = match &fin.mismatch {
            Some((_, k3, a, b)) => format!("{k3} differs between two worlds that differ in `{dim}`: {}", diff_excerpt(a, b)),
            None => format!("{} (minimised case no longer differs; original kept)", v["detail"].as_str().unwrap_or("")),
        };
        let (rp, ra, rb) = if fin.mismatch.is_some() { (mp, wa, wb2) } else { (p.clone(), worlds[0].clone(), worlds[k].clone()) };
        out_viol.push(Violation {
            property: PROPERTY.into(),
            class: "nondeterministic-output".into(),
            fingerprint: format!("{}|{}|{}", kc, dim, if subproc { "subprocess" } else { "in-process" }),
            seed: root,
            detail: format!("{detail}\n  program ({}): {:?}\n  cases in this class: see evidence", rp.kind, rp.files),
            replay: json!({"engine": "worldsim", "check": "C12", "expect_class": kc, "subproc": subproc, "program": rp, "worlds": [ra, rb]}),
        });
    }
    restore_stdout(saved);
    for (k, v) in saved_env {
        std::env::set_var(k, v);
    }
    let _ = std::fs::remove_dir_all(&scratch);
    let wall = t0.elapsed().as_secs_f64();
    let coverage = json!({
        "evaluations": total,
        "distinct_nontrivial": nontrivial.len(),
        "rule": "one evaluation = one program run through the real pipeline (check_file, build_file writing the Cargo project, collect_modules, format_source/format_diff; or real incan-cli subprocesses: --check, --emit-rust, build, fmt --diff, fmt --check, test -v) once per world, N worlds per program; worlds differ in hash-key stream, environment, tree location/cwd, simulated clock origin and file creation order. Non-trivial = the program was generated to put >= 2 entries into at least one hash-ordered collection AND the worlds' hash canary (iteration order of a fixed HashSet) really differed; distinct = distinct program text.",
        "samples": samples,
        "runs_per_hour": if wall > 0.0 { (total as f64 / wall * 3600.0) as u64 } else { 0 },
        "simulated_time": "not applicable: no timers; each world has its own simulated clock origin which must not influence any output",
        "world_executions": counters.get("world_executions"),
        "nondeterminism_kinds_injected": {
            "hash_key_stream_differs (measured by canary)": counters.get("cases_with_differing_hash_canary"),
            "readdir_order_differs (multi-file trees)": counters.get("cases_with_differing_readdir_order"),
            "output dir holds an earlier build of another program (worlds)": counters.get("worlds_with_leftover_output_dir"),
            "sources older than the leftovers (worlds)": counters.get("worlds_with_sources_older_than_leftovers"),
            "environment/cwd/clock differ": total,
        },
        "cases": counters.iter().filter(|(k, _)| k.starts_with("cases_") || k.starts_with("kind_") || k.starts_with("target_")).map(|(k, v)| (k.clone(), json!(v))).collect::<BTreeMap<_, _>>(),
        "violating_cases": viols.len(),
        "violation_classes": class_counts,
        "workers": nw,
        "real_vs_stub": {
            "real": ["cli::commands::{check_file, build_file, collect_modules}", "typechecker, scanners, IR lowering, emitter, ProjectGenerator writing to tmpfs", "format_source/format_diff", "incan-cli subprocesses built from /repo/src/main.rs"],
            "stub": ["cargo (simulated; always succeeds)", "hash keys / clock (seeded via getrandom / clock_gettime seams)"]
        }
    });
    report::finish(Outcome {
        property: PROPERTY.into(),
        tier,
        seed: root,
        level: "exploration".into(),
        coverage,
        assumptions: vec![
            "in-process worlds are faithful as long as the compiler keeps no process-global mutable state; cross-checked by real subprocesses under the LD_PRELOAD shim".into(),
            "documented switches (INCAN_*, NO_COLOR, RUST_LOG) are held fixed: they are configuration, not host state".into(),
            "the compiler's own location (CARGO_MANIFEST_DIR baked into Cargo.toml paths) is allowed to appear, as the statement says".into(),
        ],
        wall_s: wall,
        violations: out_viol,
        occurrences: BTreeMap::new(),
    });
}

pub fn replay(doc: &Value, path: &str) -> ! {
    par::install_quiet_panic_hook();
    let rp = &doc["replay"];
    let p: Program = serde_json::from_value(rp["program"].clone()).unwrap_or_else(|e| simcore::harness_error(&format!("program: {e}")));
    let worlds: Vec<World> = serde_json::from_value(rp["worlds"].clone()).unwrap_or_else(|e| simcore::harness_error(&format!("worlds: {e}")));
    let subproc = rp["subproc"].as_bool().unwrap_or(false);
    let expect = rp["expect_class"].as_str().unwrap_or("").to_string();
    let scratch = simcore::lsp::scratch_root("c12-replay");
    let fakebin = world::fakebin_dir(&scratch);
    let saved = silence_stdout();
    let r = run_case(&p, &worlds, &scratch, &fakebin, subproc);
    restore_stdout(saved);
    let _ = std::fs::remove_dir_all(&scratch);
    let got = if r.crashed.is_some() { Some("crash".to_string()) } else { r.mismatch.as_ref().map(|m| key_class(&m.1)) };
    if let Some((k, key, a, b)) = &r.mismatch {
        println!("{key} differs between world 0 and world {k}: {}", diff_excerpt(a, b));
    }
    if got.as_deref() == Some(expect.as_str()) {
        println!("VIOLATION property={PROPERTY} replay={path}");
        println!("REPRODUCED class={expect}");
        std::process::exit(1);
    }
    println!("NOT-REPRODUCED class={expect} (the tree no longer fails this replay; observed: {got:?})");
    std::process::exit(0);
}

#[allow(dead_code)]
pub fn scratch_unused(_: PathBuf) {}
