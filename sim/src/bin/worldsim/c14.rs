//! C14 — imports resolve the same everywhere and respect visibility (DESIGN.md §3.3).
//!
//! Parties (all real code): the command-line compiler (`collect_modules` + `check_file` in-process, `incan-cli --check`
//! subprocesses where a crash or hang must be survivable) and the language server (a real `serve` session in the
//! simulator, plus the `resolve_import_path` it is built on). The file system is the faulty environment.

use crate::world::{self, Node, Tree};
use serde::{Deserialize, Serialize};
use serde_json::{json, Value};
use simcore::lsp::{self, Settle, Sys};
use simcore::report::{self, Outcome, Violation};
use simcore::{fnv, mix, par, Rng, Tier};
use std::collections::{BTreeMap, BTreeSet};
use std::path::{Path, PathBuf};

const PROPERTY: &str = "C14";
const LSP_STEP_BOUND: u64 = 10_000;

#[derive(Serialize, Deserialize, Clone, Debug, PartialEq)]
pub struct Features {
    pub cat: String,       // resolve | ambiguous | visibility | visibility-control | fault
    pub spelling: String,  // py | py-alias | rust | rust-alias | rust-module
    pub prefix: String,    // plain | parent | parent2 | crate
    pub layout: String,    // file | legacy-ext | mod-dir | mod-dir-legacy | symlink | file+mod-dir | both-ext | missing | ...
    pub placement: String, // entry-root | entry-nested | dep-flat | dep-nested | dep-nested+root-decoy
    pub item_kind: String, // def | model | const | class | enum
    pub target_dirs: Vec<String>,
    pub proj: u8,
    pub tname: String,
    pub pub_item: String,
    pub hidden_item: String,
    pub n: u64,
    /// how the compiler is given the entry path: abs | rel | dot-rel (./x) | via-symlink (absolute path through a symlink to the tree)
    #[serde(default)]
    pub entry_spelling: String,
    /// the language server also has the target module open in the editor (same bytes as on disk) before the entry is opened
    #[serde(default)]
    pub dep_open: bool,
    /// visibility only: another module with the same file stem in a different directory exports the same name publicly
    #[serde(default)]
    pub stem_collision: bool,
    /// ambiguous layouts only: the preferred candidate appears on disk *after* the server first analysed the entry; the
    /// entry is then edited, and what the long-lived server loads is compared with the compiler's view of the final tree
    #[serde(default)]
    pub late_candidate: bool,
    /// visibility only: the target module has no `pub` declaration at all
    #[serde(default)]
    pub all_private: bool,
}

#[derive(Serialize, Deserialize, Clone, Debug)]
pub struct Scn {
    pub f: Features,
    pub tree: Tree,
    pub entry: String,
    /// file containing the import under test
    pub importer: String,
    /// the file the documentation assigns to the import under test, when it does
    pub doc_target: Option<String>,
    /// for naming only: the documented target, or (ambiguous layouts) the candidate both resolvers' comments call
    /// preferred (.incn, then .incan, then mod.incn, then mod.incan). No oracle demands it for ambiguous layouts.
    pub label_target: Option<String>,
    pub expect_reject: bool,
    pub order: Vec<usize>,
    pub hash_seed: u64,
}

fn marker(path: &str) -> String {
    format!("# file-marker: {path}\n")
}

fn item_decl(kind: &str, name: &str, public: bool, n: u64) -> String {
    let p = if public { "pub " } else { "" };
    match kind {
        "model" => format!("{p}model {name}:\n    v: int\n\n"),
        "class" => format!("{p}class {name}:\n    v: int\n\n    def get(self) -> int:\n        return self.v\n\n"),
        "enum" => format!("{p}enum {name}:\n    One\n    Two\n\n"),
        "const" => format!("{p}const {name}: int = {n}\n\n"),
        "trait" => format!("{p}trait {name}:\n    def describe(self) -> int: ...\n\n"),
        "newtype" => format!("{p}type {name} = newtype int\n\n"),
        // the importable item is a *variant*; it is public iff its enum is
        "variant" => format!("{p}enum Holder{name}:\n    {name}\n    Other{name}\n\n"),
        _ => format!("{p}def {name}() -> int:\n    return {n}\n\n"),
    }
}

/// A function `fname` that uses the imported item under its local name (kept to forms the checker accepts for pub items).
fn item_use_fn(kind: &str, local: &str, fname: &str, public: bool) -> String {
    let p = if public { "pub " } else { "" };
    match kind {
        "model" | "class" => format!("{p}def {fname}() -> int:\n    obj = {local}(v=1)\n    return obj.v\n"),
        "enum" => format!("{p}def {fname}_takes(e: {local}) -> int:\n    return 1\n\n{p}def {fname}() -> int:\n    return 1\n"),
        "const" => format!("{p}def {fname}() -> int:\n    x = {local}\n    return 1\n"),
        "trait" => format!("class Impl{fname} with {local}:\n    v: int\n\n    def describe(self) -> int:\n        return self.v\n\n{p}def {fname}() -> int:\n    return 1\n"),
        "newtype" => format!("{p}def {fname}() -> int:\n    w = {local}(3)\n    return 1\n"),
        "variant" => format!("{p}def {fname}() -> int:\n    return 1\n"),
        _ => format!("{p}def {fname}() -> int:\n    return {local}()\n"),
    }
}

fn item_name(kind: &str, base: &str) -> String {
    match kind {
        "model" | "class" | "enum" | "trait" | "newtype" | "variant" => {
            let mut c = base.chars();
            c.next().map(|f| f.to_uppercase().collect::<String>() + c.as_str()).unwrap_or_default().replace('_', "")
        }
        "const" => base.to_uppercase(),
        _ => base.to_string(),
    }
}

/// The import statement for module path `segs` (relative to the importer after `prefix`) and item `item`.
fn import_stmt(spelling: &str, prefix: &str, segs: &[String], item: &str) -> (String, String) {
    let aliased = spelling.ends_with("alias");
    let local = if !aliased {
        item.to_string()
    } else if item.chars().next().is_some_and(|c| c.is_uppercase()) && !item.contains('_') {
        format!("{item}Renamed")
    } else if item.chars().all(|c| !c.is_lowercase()) {
        format!("{item}_RENAMED")
    } else {
        format!("{item}_renamed")
    };
    let pre_py = match prefix {
        "parent" => "..",
        "parent2" => "...",
        "crate" => "crate.",
        _ => "",
    };
    let pre_rs = match prefix {
        "parent" => "super::",
        "parent2" => "super::super::",
        "crate" => "crate::",
        _ => "",
    };
    let stmt = match spelling {
        "py" | "py-alias" => {
            let alias = if aliased { format!(" as {local}") } else { String::new() };
            format!("from {pre_py}{} import {item}{alias}\n", segs.join("."))
        }
        "rust-module" => format!("import {pre_rs}{}\n", segs.join("::")),
        _ => {
            let alias = if aliased { format!(" as {local}") } else { String::new() };
            format!("import {pre_rs}{}::{item}{alias}\n", segs.join("::"))
        }
    };
    (stmt, local)
}

fn module_body(path: &str, kind: &str, pub_item: &str, hidden_item: &str, n: u64) -> String {
    let mut s = marker(path);
    if !pub_item.is_empty() {
        s.push_str(&item_decl(kind, pub_item, true, n));
    }
    s.push_str(&item_decl(kind, hidden_item, false, n + 1000));
    s.push_str(&format!("def private_helper_{n}() -> int:\n    return {n}\n"));
    s
}

pub fn random_features(seed: u64) -> Features {
    let mut r = Rng::new(seed);
    let cat = match r.below(20) {
        0..=10 => "resolve",
        11..=12 => "ambiguous",
        13..=16 => "visibility",
        _ => "fault",
    };
    let item_kind = *r.pick(&["def", "def", "model", "const", "class", "enum", "trait", "newtype", "variant"]);
    let spelling = match r.below(10) {
        0..=3 => "py",
        4 => "py-alias",
        5..=7 => "rust",
        8 => "rust-alias",
        _ => "rust-module",
    };
    let spelling = if cat == "visibility" && spelling == "rust-module" { "rust" } else { spelling };
    let placement = *r.pick(&["entry-root", "entry-root", "entry-nested", "dep-flat", "dep-nested", "dep-nested+root-decoy", "entry-symlinked-dir"]);
    let prefix = match r.below(8) {
        0 => "parent",
        1 => "parent2",
        2 | 3 => "crate",
        _ => "plain",
    };
    // `..` must stay inside the tree (what lies above the tree root is not ours to define): give the importer enough depth
    // the symlinked-directory placement is about climbing imports (.. / crate) through a symbolic link
    let (prefix, placement) = match (prefix, placement) {
        ("plain", "entry-symlinked-dir") => ("parent", placement),
        ("parent2", "entry-symlinked-dir") => ("parent", placement),
        (p, q) => (p, q),
    };
    let placement = match (prefix, placement) {
        (_, "entry-symlinked-dir") => "entry-symlinked-dir",
        ("parent", "entry-root") | ("parent", "dep-flat") => "entry-nested",
        ("parent2", p) if p != "entry-nested" => "entry-nested",
        (_, p) => p,
    };
    let target_dirs: Vec<String> = match r.below(4) {
        // `import a::b` means item b of module a (documented: `import module::item`), so a bare module import has one segment
        _ if spelling == "rust-module" => vec![],
        1 => vec!["pkg".into()],
        2 => vec!["pkg".into(), "inner".into()],
        _ => vec![],
    };
    let layout = match cat {
        // every subset (size >= 2) of the four candidate files a module path can denote
        "ambiguous" => *r.pick(&[
            "amb:incn+incan",
            "amb:incn+mod.incn",
            "amb:incn+mod.incan",
            "amb:incan+mod.incn",
            "amb:incan+mod.incan",
            "amb:mod.incn+mod.incan",
            "amb:incn+incan+mod.incn",
            "amb:incan+mod.incn+mod.incan",
            "amb:incn+incan+mod.incn+mod.incan",
            "amb:incn+mod.incn+mod.incan",
            "amb:incn+incan+mod.incan",
        ]),
        "fault" => *r.pick(&["missing", "missing", "dir-as-file", "dangling-symlink", "symlink-loop", "non-utf8", "cycle2", "cycle3", "self-import", "cycle2"]),
        _ => *r.pick(&["file", "file", "file", "legacy-ext", "mod-dir", "mod-dir-legacy", "symlink"]),
    };
    // `from ...x import y` does not parse (the lexer reads `...` as an ellipsis token): a parser matter, recorded in
    // DESIGN.md, not an import-resolution one. Two levels up are spelled `super::super::` here.
    let spelling = if prefix == "parent2" && spelling.starts_with("py") { "rust" } else { spelling };
    // (layout stays a plain file for the symlinked-directory placement: one question at a time)
    let layout = if placement == "entry-symlinked-dir" && cat != "fault" { "file" } else { layout };
    let cat = if placement == "entry-symlinked-dir" && cat == "ambiguous" { "resolve" } else { cat };
    let entry_spelling = r.pick(&["abs", "abs", "rel", "dot-rel", "via-symlink", "bare"]).to_string();
    let a = r.below(90) + 10;
    let b = r.below(90) + 10;
    let c = r.below(90) + 10;
    Features {
        cat: cat.into(),
        spelling: spelling.into(),
        prefix: prefix.into(),
        layout: layout.into(),
        placement: placement.into(),
        item_kind: item_kind.into(),
        target_dirs,
        proj: r.below(5) as u8,
        tname: format!("tmod{a}"),
        pub_item: item_name(item_kind, &format!("pub_item_{b}")),
        hidden_item: item_name(item_kind, &format!("hidden_item_{c}")),
        n: r.range(1, 500),
        entry_spelling: entry_spelling.clone(),
        late_candidate: cat == "ambiguous" && r.chance(1, 2),
        all_private: cat == "visibility" && r.chance(1, 4),
        dep_open: r.chance(1, 4),
        // (entry-level, plainly spelled imports only: one question at a time)
        stem_collision: cat == "visibility" && prefix == "plain" && entry_spelling == "abs" && (placement == "entry-root" || placement == "entry-nested") && r.chance(1, 2),
    }
}

pub fn gen_scn(seed: u64) -> Scn {
    build(&random_features(seed), mix(seed, "order", 0))
}

pub fn build(f: &Features, order_seed: u64) -> Scn {
    let mut r = Rng::new(order_seed);
    let prefix = f.prefix.as_str();
    // the symlinked-directory placement only exists for climbing imports; anything else falls back to a nested entry
    let placement = if f.placement == "entry-symlinked-dir" && prefix != "parent" && prefix != "crate" { "entry-nested" } else { f.placement.as_str() };
    let layout = f.layout.as_str();
    let item_kind = f.item_kind.as_str();
    // names depend on the item kind (so that minimising the kind keeps them legal)
    let pub_item = item_name(item_kind, &f.pub_item.to_lowercase().replace("pubitem", "pub_item_"));
    let hidden_item = item_name(item_kind, &f.hidden_item.to_lowercase().replace("hiddenitem", "hidden_item_"));
    let tname = f.tname.clone();
    let n = f.n;
    let mut tree = Tree::default();
    let (proj_prefix, has_src) = if prefix == "crate" {
        match f.proj {
            0 | 3 => ("".to_string(), true),     // <root>/src/... (3: plus a Cargo.toml next to src/)
            1 => ("".to_string(), false),        // <root>/Cargo.toml, sources at root
            2 => ("ws/".to_string(), true),      // nested project dir
            _ => ("outer/inner/".to_string(), true), // a project inside another project: the nearest root wins
        }
    } else {
        ("".to_string(), false)
    };
    if prefix == "crate" && placement != "entry-symlinked-dir" && (!has_src || f.proj == 3) {
        tree.file(&format!("{proj_prefix}Cargo.toml"), "[package]\nname = \"p\"\nversion = \"0.1.0\"\n");
    }
    if prefix == "crate" && placement != "entry-symlinked-dir" && f.proj == 4 {
        // the enclosing project has its own root markers and a decoy module of the same name
        tree.file("outer/Cargo.toml", "[package]\nname = \"outer\"\nversion = \"0.1.0\"\n");
        tree.file("outer/src/placeholder.incn", "pub def placeholder() -> int:\n    return 0\n");
    }
    let src_root = if has_src { format!("{proj_prefix}src/") } else { proj_prefix.clone() };
    let symlinked = placement == "entry-symlinked-dir";
    let (proj_prefix, has_src, src_root) = if symlinked { (String::new(), false, String::new()) } else { (proj_prefix, has_src, src_root) };
    let _ = (&proj_prefix, has_src);
    let (entry_rel, importer_rel): (String, String) = match placement {
        // logical path proj/app/main.incn; proj/app is a symbolic link to ../store/app
        "entry-symlinked-dir" => ("proj/app/main.incn".into(), "proj/app/main.incn".into()),
        "entry-root" => ("main.incn".into(), "main.incn".into()),
        "entry-nested" => ("app/cli/main.incn".into(), "app/cli/main.incn".into()),
        "dep-flat" => ("main.incn".into(), "mid.incn".into()),
        _ => ("main.incn".into(), "sub/mid.incn".into()),
    };
    let entry = format!("{src_root}{entry_rel}");
    let importer = format!("{src_root}{importer_rel}");
    let importer_dir = importer.rsplit_once('/').map(|(d, _)| format!("{d}/")).unwrap_or_default();
    // resolution base per the documentation: the importing file's directory, moved by the prefix
    let base: String = match prefix {
        // logical project root (the one reached by climbing the path as spelled)
        "crate" if symlinked => "proj/".to_string(),
        "crate" => src_root.clone(),
        "parent" => parent_of(&importer_dir),
        "parent2" => parent_of(&parent_of(&importer_dir)),
        _ => importer_dir.clone(),
    };
    let depth = importer_dir.matches('/').count();
    let parent_underflow = (prefix == "parent" && depth < 1) || (prefix == "parent2" && depth < 2);
    let mut segs = f.target_dirs.clone();
    segs.push(tname.clone());
    let stem = format!("{base}{}", segs.join("/"));

    let only_private = f.all_private && f.cat == "visibility";
    let body = |p: &str| module_body(p, item_kind, if only_private { "" } else { &pub_item }, &hidden_item, n);
    let mut doc_target: Option<String> = None;
    let mut preferred: Option<String> = None;
    match layout {
        "file" => {
            let p = format!("{stem}.incn");
            tree.file(&p, &body(&p));
            doc_target = Some(p);
        }
        "legacy-ext" => {
            let p = format!("{stem}.incan");
            tree.file(&p, &body(&p));
            doc_target = Some(p);
        }
        "mod-dir" => {
            let p = format!("{stem}/mod.incn");
            tree.file(&p, &body(&p));
            doc_target = Some(p);
        }
        "mod-dir-legacy" => {
            let p = format!("{stem}/mod.incan");
            tree.file(&p, &body(&p));
            doc_target = Some(p);
        }
        "symlink" => {
            let real = format!("{src_root}real_impl/impl_{tname}.incn");
            tree.file(&real, &body(&real));
            let d = stem.matches('/').count();
            let up = "../".repeat(d);
            tree.nodes.push((format!("{stem}.incn"), Node::Symlink(format!("{up}{real}"))));
            doc_target = Some(real);
        }
        l if l.starts_with("amb:") => {
            for c in l[4..].split('+') {
                let p = match c {
                    "incn" => format!("{stem}.incn"),
                    "incan" => format!("{stem}.incan"),
                    "mod.incn" => format!("{stem}/mod.incn"),
                    _ => format!("{stem}/mod.incan"),
                };
                tree.file(&p, &body(&p));
                if preferred.is_none() {
                    // the subsets are spelled in order of preference
                    preferred = Some(p);
                }
            }
        }
        "dir-as-file" => tree.nodes.push((format!("{stem}.incn"), Node::Dir)),
        "dangling-symlink" => tree.nodes.push((format!("{stem}.incn"), Node::Symlink("nowhere/at_all.incn".into()))),
        "symlink-loop" => tree.nodes.push((format!("{stem}.incn"), Node::Symlink(format!("{tname}.incn")))),
        "non-utf8" => tree.nodes.push((format!("{stem}.incn"), Node::Bytes(vec![b'p', b'u', b'b', b' ', 0xff, 0xfe, 0xc3, 0x28, b'\n']))),
        "cycle2" | "cycle3" | "self-import" => {
            // the target imports back (directly or through a third module); everything flat next to the target
            let p = format!("{stem}.incn");
            let imp_mod = importer.rsplit('/').next().unwrap_or("main.incn").trim_end_matches(".incn").to_string();
            let back = match layout {
                "self-import" => tname.clone(),
                "cycle2" => imp_mod.clone(),
                _ => format!("third_{tname}"),
            };
            let mut b = marker(&p);
            b.push_str(&format!("from {back} import back_item\n"));
            b.push_str(&item_decl(item_kind, &pub_item, true, n));
            b.push_str("pub def back_item() -> int:\n    return 4\n");
            tree.file(&p, &b);
            if layout == "cycle3" {
                let p3 = format!("{}{back}.incn", stem.rsplit_once('/').map(|(d, _)| format!("{d}/")).unwrap_or_default());
                tree.file(&p3, &format!("{}from {imp_mod} import back_item\npub def back_item() -> int:\n    return 3\n", marker(&p3)));
            }
        }
        _ => {} // missing
    }
    // decoy with the same module path at the entry's directory while the importer lives elsewhere
    if placement == "dep-nested+root-decoy" && prefix == "plain" {
        let p = format!("{src_root}{}.incn", segs.join("/"));
        if tree.get(&p).is_none() {
            tree.file(&p, &module_body(&p, item_kind, &pub_item, &hidden_item, n + 5000));
        }
    }

    let private = f.cat == "visibility";
    let imported = if private { &hidden_item } else { &pub_item };
    let (stmt, local) = import_stmt(&f.spelling, prefix, &segs, imported);
    let mut imp_src = marker(&importer);
    if f.stem_collision && f.cat.starts_with("visibility") && !symlinked_early(f) {
        // ... and the same item *name* is imported (legitimately, it is pub there) from the lookalike on an earlier line
        imp_src.push_str(&format!("from lookalike.{tname} import {hidden_item} as from_lookalike_{n}\n"));
    }
    imp_src.push_str(&stmt);
    if f.stem_collision && f.cat.starts_with("visibility") && !symlinked_early(f) {
        // `lookalike/<same stem>.incn` exports the *hidden* name publicly and is imported too: the verdict for the
        // private item must come from the module the import names, not from a module that merely shares its stem
        let decoy_path = format!("{importer_dir}lookalike/{tname}.incn");
        if tree.get(&decoy_path).is_none() {
            let mut b = marker(&decoy_path);
            b.push_str(&item_decl(item_kind, &hidden_item, true, n + 9000));
            b.push_str("pub def lookalike_only() -> int:\n    return 9\n");
            tree.file(&decoy_path, &b);
        }
        imp_src.push_str(&format!("from lookalike.{tname} import lookalike_only\n"));
    }
    imp_src.push('\n');
    if importer != entry {
        if f.spelling == "rust-module" {
            imp_src.push_str("pub def mid_item() -> int:\n    return 1\n");
        } else {
            imp_src.push_str(&item_use_fn(item_kind, &local, "mid_item", true));
        }
        imp_src.push_str("\npub def back_item() -> int:\n    return 2\n");
        tree.file(&importer, &imp_src);
        let mid_mod = importer_rel.trim_end_matches(".incn").replace('/', ".");
        let mut e = marker(&entry);
        e.push_str(&format!("from {mid_mod} import mid_item\n\ndef main() -> None:\n    v = mid_item()\n"));
        tree.file(&entry, &e);
    } else {
        imp_src.push_str("pub def back_item() -> int:\n    return 2\n\n");
        if f.spelling == "rust-module" {
            imp_src.push_str("def use_it() -> int:\n    return 1\n");
        } else {
            imp_src.push_str(&item_use_fn(item_kind, &local, "use_it", false));
        }
        imp_src.push_str("\ndef main() -> None:\n    v = use_it()\n");
        tree.file(&entry, &imp_src);
    }
    if parent_underflow {
        doc_target = None;
    }
    if symlinked {
        // physical location of the importer, the link, and what a *physical* climb would find instead
        if let Some(pos) = tree.nodes.iter().position(|(p, _)| p == &entry) {
            let (_, node) = tree.nodes.remove(pos);
            tree.nodes.push(("store/app/main.incn".to_string(), node));
        }
        tree.nodes.push(("proj/app".to_string(), Node::Symlink("../store/app".to_string())));
        tree.file("proj/Cargo.toml", "[package]\nname = \"logical\"\nversion = \"0.1.0\"\n");
        tree.file("store/Cargo.toml", "[package]\nname = \"physical\"\nversion = \"0.1.0\"\n");
        let decoy = format!("store/{}.incn", segs.join("/"));
        if tree.get(&decoy).is_none() {
            tree.file(&decoy, &module_body(&decoy, item_kind, &pub_item, &hidden_item, n + 7000));
        }
        // the documentation does not say which parent a symbolic link has; only agreement is demanded
        preferred = doc_target.clone().or(preferred);
        doc_target = None;
    }
    let order = {
        let mut o: Vec<usize> = (0..tree.nodes.len()).collect();
        r.shuffle(&mut o);
        o
    };
    Scn {
        f: f.clone(),
        tree,
        entry,
        importer,
        label_target: if parent_underflow { None } else { doc_target.clone().or(preferred) },
        doc_target: if f.cat == "resolve" || f.cat.starts_with("visibility") { doc_target } else { None },
        expect_reject: private,
        order,
        hash_seed: r.next() | 1,
    }
}

fn symlinked_early(f: &Features) -> bool {
    f.placement == "entry-symlinked-dir" && (f.prefix == "parent" || f.prefix == "crate")
}

fn parent_of(dir: &str) -> String {
    // "a/b/" -> "a/", "a/" -> "", "" -> ""
    let t = dir.trim_end_matches('/');
    match t.rsplit_once('/') {
        Some((p, _)) => format!("{p}/"),
        None => String::new(),
    }
}

// ------------------------------------------------------------------------------------------------ parties

#[derive(Clone, Debug, Default)]
pub struct CliView {
    /// files loaded as dependencies (by marker), entry excluded
    pub loaded: BTreeSet<String>,
    pub collect_err: Option<String>,
    pub check: Option<Result<(), String>>,
    pub panic: Option<String>,
}

fn markers_in(src: &str) -> Option<String> {
    src.lines().find_map(|l| l.strip_prefix("# file-marker: ")).map(|s| s.trim().to_string())
}

/// The command-line compiler's view, in-process on a fresh simulated process instance.
pub fn cli_view(root: &Path, scn: &Scn, hash_seed: u64, with_check: bool) -> CliView {
    let entry_abs = match scn.f.entry_spelling.as_str() {
        "rel" => {
            let _ = std::env::set_current_dir(root);
            scn.entry.clone()
        }
        "dot-rel" => {
            let _ = std::env::set_current_dir(root);
            format!("./{}", scn.entry)
        }
        "bare" => {
            // invoked from the entry file's own directory with just the file name
            let p = root.join(&scn.entry);
            let _ = std::env::set_current_dir(p.parent().unwrap_or(root));
            p.file_name().map(|n| n.to_string_lossy().to_string()).unwrap_or_default()
        }
        "via-symlink" => {
            // the same tree reached through a symbolic link to its root directory
            let link = root.with_file_name(format!("{}-link", root.file_name().map(|n| n.to_string_lossy().to_string()).unwrap_or_default()));
            let _ = std::fs::remove_file(&link);
            let _ = std::os::unix::fs::symlink(root, &link);
            link.join(&scn.entry).to_string_lossy().to_string()
        }
        _ => root.join(&scn.entry).to_string_lossy().to_string(),
    };
    let entry_rel = scn.entry.clone();
    let root_s = root.to_string_lossy().to_string();
    let tree_paths: Vec<String> = scn.tree.nodes.iter().map(|(p, _)| p.clone()).collect();
    let r = par::instance_timeout(hash_seed, None, std::time::Duration::from_secs(30), move || {
        let mut v = CliView::default();
        match incan::cli::commands::collect_modules(&entry_abs) {
            Ok(mods) => {
                for m in &mods {
                    if let Some(mk) = markers_in(&m.source) {
                        if mk != entry_rel {
                            v.loaded.insert(mk);
                        }
                    } else {
                        v.loaded.insert(format!("<unmarked module {}>", m.name));
                    }
                }
            }
            Err(e) => {
                // an unreadable target: the message names the path the compiler resolved to
                let msg = e.message.replace(&format!("{root_s}-link/"), "").replace(&format!("{root_s}/"), "");
                for p in &tree_paths {
                    if msg.contains(&format!("'{p}'")) {
                        v.loaded.insert(p.clone());
                    }
                }
                v.collect_err = Some(msg);
            }
        }
        if with_check {
            v.check = Some(match incan::cli::commands::check_file(&entry_abs) {
                Ok(_) => Ok(()),
                Err(e) => Err(e.message.replace(&format!("{root_s}/"), "")),
            });
        }
        v
    });
    let _ = std::env::set_current_dir("/");
    match r {
        Ok(v) => v,
        Err(e) => CliView { panic: Some(e), ..Default::default() },
    }
}

#[derive(Clone, Debug, Default)]
pub struct LspView {
    pub loaded: BTreeSet<String>,
    pub entry_diags: Vec<String>,
    pub resolver: Vec<Option<String>>,
    pub dead: Option<String>,
    pub stuck: bool,
    pub steps: u64,
}

/// The language server's view: a real serve session that opens the importer chain's entry document and runs to idle.
pub fn lsp_view(root: &Path, scn: &Scn, hash_seed: u64) -> LspView {
    let root = root.to_path_buf();
    let entry = scn.entry.clone();
    let importer = scn.importer.clone();
    let dep_open = scn.f.dep_open && !scn.f.late_candidate;
    let late_candidate = scn.f.late_candidate;
    let dep_target = scn.label_target.clone();
    let r = par::instance_timeout(hash_seed, None, std::time::Duration::from_secs(30), move || {
        let mut v = LspView::default();
        let root_c = root.canonicalize().unwrap_or(root.clone());
        let entry_abs = root_c.join(&entry);
        let Ok(text) = std::fs::read_to_string(&entry_abs) else {
            v.dead = Some("harness: entry unreadable".into());
            return v;
        };
        // direct calls of the resolver the server is built on, for the importer's own imports
        if let Ok(itext) = std::fs::read_to_string(root_c.join(&importer)) {
            if let Ok(toks) = incan::lexer::lex(&itext) {
                if let Ok(ast) = incan::parser::parse(&toks) {
                    let base = root_c.join(&importer).parent().map(|p| p.to_path_buf()).unwrap_or(root_c.clone());
                    for d in &ast.declarations {
                        if let incan::ast::Declaration::Import(imp) = &d.node {
                            let res = incan::frontend::module::resolve_import_path(&base, imp);
                            v.resolver.push(res.map(|p| rel_to(&root_c, &p)));
                        }
                    }
                }
            }
        }
        let mut sys = Sys::new(None);
        if let Err(e) = sys.handshake() {
            v.dead = Some(e);
            return v;
        }
        if dep_open {
            if let Some(t) = &dep_target {
                let p = root_c.join(t);
                if let Ok(dep_text) = std::fs::read_to_string(&p) {
                    let dep_uri = format!("file://{}", p.canonicalize().unwrap_or(p.clone()).display());
                    let _ = sys.deliver_now(&lsp::did_open(&dep_uri, 1, &dep_text), LSP_STEP_BOUND);
                    let _ = sys.drain_frames();
                }
            }
        }
        let uri = format!("file://{}", entry_abs.display());
        // two-phase history: the preferred candidate is absent when the entry is first analysed ...
        let late_file = if late_candidate { dep_target.as_ref().map(|t| root_c.join(t)) } else { None };
        let late_bytes = late_file.as_ref().and_then(|p| std::fs::read(p).ok());
        if let (Some(p), Some(_)) = (&late_file, &late_bytes) {
            let _ = std::fs::remove_file(p);
            let _ = sys.deliver_now(&lsp::did_open(&uri, 1, &text), LSP_STEP_BOUND);
            let _ = sys.drain_frames();
            // ... then it appears (for ambiguous layouts the other candidates stay) and the entry document is edited
            if let Some(parent) = p.parent() {
                let _ = std::fs::create_dir_all(parent);
            }
            let _ = std::fs::write(p, late_bytes.as_deref().unwrap_or_default());
        }
        let first_msg = if late_file.is_some() && late_bytes.is_some() { lsp::did_change(&uri, 2, &text) } else { lsp::did_open(&uri, 1, &text) };
        match sys.deliver_now(&first_msg, LSP_STEP_BOUND) {
            Settle::Quiescent => {}
            Settle::Dead(d) => {
                v.dead = Some(d);
                return v;
            }
            Settle::OutOfSteps => {
                v.stuck = true;
                return v;
            }
        }
        // a hover probe must be answered (lock not wedged)
        let id = sys.fresh_id();
        match sys.deliver_now(&lsp::hover(id, &uri, 0, 0), LSP_STEP_BOUND) {
            Settle::Quiescent => {}
            Settle::Dead(d) => {
                v.dead = Some(d);
                return v;
            }
            Settle::OutOfSteps => {
                v.stuck = true;
                return v;
            }
        }
        let frames = sys.drain_frames();
        if !frames.iter().any(|f| f["id"].as_i64() == Some(id)) {
            v.stuck = true;
        }
        for f in &frames {
            if f["method"] == "textDocument/publishDiagnostics" {
                let u = f["params"]["uri"].as_str().unwrap_or("");
                if u == uri {
                    v.entry_diags = f["params"]["diagnostics"].as_array().map(|a| a.iter().map(|d| d["message"].as_str().unwrap_or("").to_string()).collect()).unwrap_or_default();
                } else if let Some(p) = u.strip_prefix("file://") {
                    v.loaded.insert(rel_to(&root_c, Path::new(&percent_decode(p))));
                }
            }
        }
        v.steps = sys.steps;
        v
    });
    match r {
        Ok(v) => v,
        Err(e) => LspView { dead: Some(e), ..Default::default() },
    }
}

fn percent_decode(s: &str) -> String {
    let b = s.as_bytes();
    let mut out = Vec::new();
    let mut i = 0;
    while i < b.len() {
        if b[i] == b'%' && i + 2 < b.len() + 0 && i + 2 <= b.len() - 1 {
            if let Ok(v) = u8::from_str_radix(&s[i + 1..i + 3], 16) {
                out.push(v);
                i += 3;
                continue;
            }
        }
        out.push(b[i]);
        i += 1;
    }
    String::from_utf8_lossy(&out).to_string()
}

fn rel_to(root: &Path, p: &Path) -> String {
    p.strip_prefix(root).map(|r| r.to_string_lossy().to_string()).unwrap_or_else(|_| p.to_string_lossy().to_string())
}

// ------------------------------------------------------------------------------------------------ oracles

#[derive(Clone, Debug)]
pub struct Finding {
    pub class: String,
    /// what each party did, normalised relative to the edge under test (part of the fingerprint)
    pub outcome: String,
    pub fingerprint: String,
    pub detail: String,
}

fn shape(f: &Features) -> String {
    format!(
        "{}|{}|{}|{}|{}|dirs{}|proj{}{}",
        f.spelling,
        f.prefix,
        f.layout,
        f.placement,
        f.item_kind,
        f.target_dirs.len(),
        if f.prefix == "crate" { f.proj } else { 0 },
        format!(
            "{}{}{}{}{}",
            if f.entry_spelling.is_empty() || f.entry_spelling == "abs" { String::new() } else { format!("|entry={}", f.entry_spelling) },
            if f.dep_open { "|dep-open" } else { "" },
            if f.late_candidate { "|late-candidate" } else { "" },
            if f.all_private { "|all-private" } else { "" },
            if f.stem_collision { "|stem-collision" } else { "" }
        )
    )
}

pub fn fingerprint_of(f: &Features, class: &str, outcome: &str) -> String {
    format!("{class}|{outcome}|{}", shape(f))
}

fn norm_set(s: &BTreeSet<String>, scn: &Scn) -> String {
    // describe loaded files relative to the edge under test, independent of random names
    if s.is_empty() {
        return "none".into();
    }
    let importer_dir = scn.importer.rsplit_once('/').map(|(d, _)| format!("{d}/")).unwrap_or_default();
    let entry_dir = scn.entry.rsplit_once('/').map(|(d, _)| format!("{d}/")).unwrap_or_default();
    let mut parts: Vec<String> = Vec::new();
    for p in s {
        let d = if Some(p) == scn.label_target.as_ref() {
            "target".to_string()
        } else if *p == scn.importer {
            "importer".to_string()
        } else if p.contains("tmod") || p.contains("impl_") {
            let ext = if p.ends_with("mod.incn") {
                "mod.incn"
            } else if p.ends_with("mod.incan") {
                "mod.incan"
            } else if p.ends_with(".incan") {
                "file.incan"
            } else if p.contains("third_") {
                "third"
            } else {
                "file.incn"
            };
            let dir = p.rsplit_once('/').map(|(d, _)| format!("{d}/")).unwrap_or_default();
            let where_ = if importer_dir != entry_dir && dir.starts_with(&importer_dir) && !importer_dir.is_empty() {
                "importer-dir"
            } else if dir.starts_with(&entry_dir) {
                "entry-dir"
            } else {
                "elsewhere"
            };
            format!("candidate:{ext}@{where_}")
        } else {
            "other".to_string()
        };
        parts.push(d);
    }
    parts.sort();
    parts.join("+")
}

pub struct CaseOut {
    pub findings: Vec<Finding>,
    pub fs_faults: BTreeMap<String, u64>,
    pub lsp_steps: u64,
    pub subprocs: u64,
    pub watchdog: bool,
    pub notes: BTreeMap<String, u64>,
}

fn mk(scn: &Scn, class: &str, outcome: &str, detail: String) -> Finding {
    Finding { class: class.into(), outcome: outcome.into(), fingerprint: fingerprint_of(&scn.f, class, outcome), detail }
}

pub fn run_case(scn: &Scn, scratch: &Path, fakebin: &Path) -> CaseOut {
    // one directory name per scenario: code under test that (wrongly) keeps process-global state keyed by path must not
    // make one case's verdict depend on which cases ran before it in the same worker
    let root = scratch.join(format!("t{:08x}", fnv(serde_json::to_string(&scn.f).unwrap_or_default().as_bytes()) & 0xffff_ffff));
    scn.tree.materialise(&root, Some(&scn.order));
    let mut out = CaseOut { findings: Vec::new(), fs_faults: BTreeMap::new(), lsp_steps: 0, subprocs: 0, watchdog: false, notes: BTreeMap::new() };
    if ["dir-as-file", "dangling-symlink", "symlink-loop", "non-utf8", "missing", "cycle2", "cycle3", "self-import", "symlink"].contains(&scn.f.layout.as_str()) || scn.f.layout.starts_with("amb:") {
        *out.fs_faults.entry(scn.f.layout.clone()).or_insert(0) += 1;
    }
    // ---- language server (always survivable: watchdog + step bound)
    let lv = lsp_view(&root, scn, scn.hash_seed);
    out.lsp_steps = lv.steps;
    if let Some(d) = &lv.dead {
        if par::is_watchdog(d) {
            out.watchdog = true;
        }
        out.findings.push(mk(scn, "lsp-crash-or-hang", "dead", format!("language server on {}: {d}", scn.entry)));
    } else if lv.stuck {
        out.findings.push(mk(scn, "lsp-crash-or-hang", "no-idle", format!("language server did not become idle / answer within {LSP_STEP_BOUND} steps on {}", scn.entry)));
    }
    if scn.f.cat == "fault" {
        // ---- the compiler must end with a diagnostic: real subprocess so that a crash or hang is survivable
        let env = world::cli_env(fakebin, Some(scn.hash_seed), &[]);
        let args: Vec<String> = vec!["--no-banner".into(), "--color".into(), "never".into(), "--check".into(), scn.entry.clone()];
        let r = world::run_proc(&world::cli_path(), &args, &root, &env, 30_000);
        out.subprocs += 1;
        if let Some(e) = &r.spawn_error {
            simcore::harness_error(&format!("cannot spawn incan-cli: {e}"));
        }
        let stderr = r.err_str();
        if r.timed_out {
            out.watchdog = true;
            out.findings.push(mk(scn, "cli-hang", "timeout", format!("incan --check {} did not end within 30 s ({})", scn.entry, scn.f.layout)));
        } else if r.signal.is_some() || stderr.contains("panicked at") || stderr.contains("stack overflow") {
            out.findings.push(mk(scn, "cli-crash", "crash", format!("incan --check {} crashed: signal={:?} stderr={}", scn.entry, r.signal, trunc(&stderr, 300))));
        } else if r.code == Some(0) {
            out.findings.push(mk(
                scn,
                "no-diagnostic",
                "exit0",
                format!("{} for `{}` in {}: `incan --check {}` exits 0 with {:?}", scn.f.layout, import_line(scn), scn.importer, scn.entry, trunc(r.out_str().trim(), 80)),
            ));
        } else if stderr.trim().is_empty() && r.out_str().trim().is_empty() {
            out.findings.push(mk(scn, "no-diagnostic", "silent-failure", format!("{}: exit {:?} without any diagnostic text", scn.f.layout, r.code)));
        }
        let _ = std::fs::remove_dir_all(&root);
        return out;
    }
    // ---- command-line compiler in-process, two worlds (hash keys differ; second world re-creates the tree in another order)
    let cv = cli_view(&root, scn, scn.hash_seed, true);
    if let Some(p) = &cv.panic {
        if par::is_watchdog(p) {
            out.watchdog = true;
        }
        out.findings.push(mk(scn, "cli-crash", "panic", format!("compiler front end on {}: {p}", scn.entry)));
        let _ = std::fs::remove_dir_all(&root);
        return out;
    }
    let mut rev = scn.order.clone();
    rev.reverse();
    scn.tree.materialise(&root, Some(&rev));
    let cv2 = cli_view(&root, scn, scn.hash_seed.wrapping_mul(0x9E3779B97F4A7C15) | 1, false);
    let lv2 = lsp_view(&root, scn, scn.hash_seed.wrapping_mul(0xD1B54A32D192ED03) | 1);
    // oracle 2: well-definedness across worlds
    if cv2.panic.is_none() && cv.loaded != cv2.loaded {
        out.findings.push(mk(scn, "not-well-defined", "cli-varies-by-world", format!("compiler loads {:?} in one world and {:?} in another (creation order / hash keys differ)", cv.loaded, cv2.loaded)));
    }
    if lv2.dead.is_none() && lv.dead.is_none() && lv.loaded != lv2.loaded {
        out.findings.push(mk(scn, "not-well-defined", "lsp-varies-by-world", format!("language server loads {:?} in one world and {:?} in another", lv.loaded, lv2.loaded)));
    }
    // oracle 1: agreement on the set of files loaded
    if lv.dead.is_none() && !lv.stuck {
        if cv.loaded != lv.loaded {
            out.findings.push(mk(
                scn,
                "cli-lsp-disagree",
                &format!("cli={}|lsp={}", norm_set(&cv.loaded, scn), norm_set(&lv.loaded, scn)),
                format!("import `{}` in {}: the compiler loads {:?}, the language server loads {:?} (documented target: {:?})", import_line(scn), scn.importer, cv.loaded, lv.loaded, scn.doc_target),
            ));
        } else if let Some(t) = &scn.doc_target {
            // both agree; where the documentation defines the file, it must be that one
            if !cv.loaded.contains(t) {
                out.findings.push(mk(
                    scn,
                    "wrong-file",
                    &format!("both={}", norm_set(&cv.loaded, scn)),
                    format!("import `{}` in {}: documented target {t} is loaded by neither tool (both load {:?})", import_line(scn), scn.importer, cv.loaded),
                ));
            }
        }
    }
    // oracle 3: visibility — the compiler's verdict decides. Premises: the compiler did load the target module, and the
    // same import of the module's pub item is accepted (otherwise acceptance/rejection says nothing about visibility).
    if scn.expect_reject {
        let resolved = scn.doc_target.as_ref().is_some_and(|t| cv.loaded.contains(t));
        if !resolved {
            *out.notes.entry("visibility_premise_failed_target_not_loaded".into()).or_insert(0) += 1;
        } else if let Some(Ok(())) = &cv.check {
            let mut cf = scn.f.clone();
            cf.cat = "visibility-control".into();
            cf.all_private = false;
            let control = build(&cf, scn.hash_seed);
            control.tree.materialise(&root, None);
            let cc = cli_view(&root, &control, scn.hash_seed, true);
            if matches!(cc.check, Some(Ok(()))) {
                out.findings.push(mk(
                    scn,
                    "private-item-accepted",
                    "check-passes",
                    format!("`{}` in {} imports a non-pub {} of a module the compiler loaded, and `incan --check {}` passes", import_line(scn), scn.importer, scn.f.item_kind, scn.entry),
                ));
            } else {
                *out.notes.entry("visibility_premise_failed_pub_control_rejected".into()).or_insert(0) += 1;
            }
        } else {
            *out.notes.entry("private_item_rejected".into()).or_insert(0) += 1;
        }
    } else if scn.f.cat == "resolve" {
        if let (Some(Err(_)), Some(t)) = (&cv.check, &scn.doc_target) {
            if cv.loaded.contains(t) {
                // not a C14 matter (the statement does not promise that every pub item form type-checks): recorded only
                *out.notes.entry("observed_pub_item_rejected_although_loaded".into()).or_insert(0) += 1;
            }
        }
    }
    let _ = std::fs::remove_dir_all(&root);
    out
}

/// Neutralise one feature at a time while the same class and the same party outcomes persist; the fingerprint of a
/// finding is taken from the minimal scenario, so that one root cause has one fingerprint.
pub fn minimise(scn: &Scn, class: &str, outcome: &str, scratch: &Path, fakebin: &Path) -> Scn {
    let mut cur = scn.clone();
    let mut progress = true;
    let mut guard = 0;
    while progress && guard < 16 {
        guard += 1;
        progress = false;
        let mut cands: Vec<Features> = Vec::new();
        let f = &cur.f;
        if f.placement != "entry-root" {
            let mut c = f.clone();
            c.placement = if f.prefix.starts_with("parent") { "entry-nested".into() } else { "entry-root".into() };
            if c.placement != f.placement {
                cands.push(c);
            }
            if f.placement == "entry-symlinked-dir" {
                let mut c = f.clone();
                c.placement = "entry-nested".into();
                cands.push(c);
            }
            if f.placement.starts_with("dep-nested") {
                if !f.prefix.starts_with("parent") {
                    let mut c = f.clone();
                    c.placement = "dep-flat".into();
                    cands.push(c);
                }
                if f.placement != "dep-nested" {
                    let mut c = f.clone();
                    c.placement = "dep-nested".into();
                    cands.push(c);
                }
            }
        }
        if f.prefix != "plain" && f.placement != "entry-symlinked-dir" {
            let mut c = f.clone();
            c.prefix = "plain".into();
            cands.push(c);
            if f.prefix == "parent2" {
                let mut c = f.clone();
                c.prefix = "parent".into();
                cands.push(c);
            }
        }
        if (f.cat == "resolve" || f.cat == "visibility") && f.layout != "file" {
            let mut c = f.clone();
            c.layout = "file".into();
            cands.push(c);
        }
        if f.cat == "ambiguous" {
            // if the same parties' outcomes persist with a single candidate, ambiguity is not the cause
            let mut c = f.clone();
            c.cat = "resolve".into();
            c.layout = "file".into();
            cands.push(c);
        }
        if f.spelling != "py" && f.prefix != "parent2" {
            let mut c = f.clone();
            c.spelling = "py".into();
            cands.push(c);
            if f.spelling == "rust-alias" {
                let mut c = f.clone();
                c.spelling = "rust".into();
                cands.push(c);
            }
        }
        if f.item_kind != "def" {
            let mut c = f.clone();
            c.item_kind = "def".into();
            cands.push(c);
        }
        if !f.target_dirs.is_empty() {
            let mut c = f.clone();
            c.target_dirs.clear();
            cands.push(c);
        }
        if f.prefix == "crate" && f.proj != 0 {
            let mut c = f.clone();
            c.proj = 0;
            cands.push(c);
        }
        if !f.entry_spelling.is_empty() && f.entry_spelling != "abs" {
            let mut c = f.clone();
            c.entry_spelling = "abs".into();
            cands.push(c);
        }
        if f.dep_open {
            let mut c = f.clone();
            c.dep_open = false;
            cands.push(c);
        }
        if f.late_candidate {
            let mut c = f.clone();
            c.late_candidate = false;
            cands.push(c);
        }
        if f.all_private {
            let mut c = f.clone();
            c.all_private = false;
            cands.push(c);
        }
        if f.stem_collision {
            let mut c = f.clone();
            c.stem_collision = false;
            cands.push(c);
        }
        for c in cands {
            let s2 = build(&c, scn.hash_seed);
            let o = run_case(&s2, scratch, fakebin);
            if o.findings.iter().any(|x| x.class == class && x.outcome == outcome) {
                cur = s2;
                progress = true;
                break;
            }
        }
    }
    cur
}

fn import_line(scn: &Scn) -> String {
    // (for the symlinked-directory placement the importer's bytes live at the physical path)
    if let Some(Node::File(s)) = scn.tree.get(&scn.importer).or_else(|| scn.tree.get("store/app/main.incn")) {
        for l in s.lines() {
            if (l.starts_with("from ") || l.starts_with("import ")) && !l.contains("mid_item") {
                return l.to_string();
            }
        }
    }
    String::new()
}

fn trunc(s: &str, n: usize) -> String {
    if s.len() <= n {
        s.to_string()
    } else {
        let mut e = n;
        while !s.is_char_boundary(e) {
            e -= 1;
        }
        format!("{}…", &s[..e])
    }
}

// ------------------------------------------------------------------------------------------------ batch

fn budget(t: Tier) -> u64 {
    match t {
        Tier::Quick => simcore::scaled(2400),
        Tier::Thorough => simcore::scaled(60_000),
    }
}

fn worker(args: &[String], spec: par::WorkerSpec) {
    par::install_quiet_panic_hook();
    let root = simcore::root_seed(args);
    let n = budget(simcore::tier(args));
    let scratch = lsp::scratch_root(&format!("c14-w{}", spec.index));
    let fakebin = world::fakebin_dir(&scratch);
    let saved = crate::c12::silence_stdout();
    let mut viol: Vec<Value> = Vec::new();
    let mut counters: BTreeMap<String, u64> = BTreeMap::new();
    let mut shapes: BTreeSet<String> = BTreeSet::new();
    let mut samples: Vec<Value> = Vec::new();
    let mut done = 0u64;
    let mut i = spec.index;
    let mut aborted = false;
    while i < n {
        let scn = gen_scn(mix(root, PROPERTY, i));
        let out = run_case(&scn, &scratch, &fakebin);
        done += 1;
        *counters.entry(format!("cat_{}", scn.f.cat)).or_insert(0) += 1;
        *counters.entry(format!("spelling_{}", scn.f.spelling)).or_insert(0) += 1;
        *counters.entry(format!("prefix_{}", scn.f.prefix)).or_insert(0) += 1;
        *counters.entry(format!("placement_{}", scn.f.placement)).or_insert(0) += 1;
        *counters.entry("lsp_executor_steps".into()).or_insert(0) += out.lsp_steps;
        *counters.entry("cli_subprocesses".into()).or_insert(0) += out.subprocs;
        for (k, c) in &out.fs_faults {
            *counters.entry(format!("fs_{k}")).or_insert(0) += c;
        }
        shapes.insert(format!("{}|{}", scn.f.cat, shape(&scn.f)));
        if samples.len() < 2 && scn.f.placement.starts_with("dep") {
            samples.push(json!({"case": i, "category": scn.f.cat, "shape": shape(&scn.f), "entry": scn.entry, "importer": scn.importer, "import": import_line(&scn), "tree": scn.tree.nodes.iter().map(|(p, n)| format!("{p}{}", match n { Node::Dir => "/", Node::Symlink(_) => " -> (symlink)", _ => "" })).collect::<Vec<_>>(), "documented_target": scn.doc_target}));
        }
        for (k, c) in &out.notes {
            *counters.entry(format!("note_{k}")).or_insert(0) += c;
        }
        for f in &out.findings {
            let m = if out.watchdog { scn.clone() } else { minimise(&scn, &f.class, &f.outcome, &scratch, &fakebin) };
            let fp = fingerprint_of(&m.f, &f.class, &f.outcome);
            viol.push(json!({"index": i, "class": f.class, "outcome": f.outcome, "fingerprint": fp, "detail": f.detail, "minimal": m.f}));
        }
        if out.watchdog {
            // an abandoned thread may still be spinning: stop this worker here, the parent re-runs the case alone
            aborted = true;
            break;
        }
        i += spec.count;
    }
    crate::c12::restore_stdout(saved);
    let _ = std::fs::remove_dir_all(&scratch);
    par::emit_worker_result(&json!({"runs": done, "violations": viol, "counters": counters, "shapes": shapes, "samples": samples, "aborted": aborted}));
    if aborted {
        std::process::exit(0);
    }
}

pub fn main(args: &[String]) {
    if let Some(idx) = simcore::arg_value(args, "--show").and_then(|s| s.parse::<u64>().ok()) {
        par::install_quiet_panic_hook();
        let scn = gen_scn(mix(simcore::root_seed(args), PROPERTY, idx));
        println!("{}", serde_json::to_string_pretty(&scn).unwrap_or_default());
        let scratch = lsp::scratch_root("c14-show");
        let fakebin = world::fakebin_dir(&scratch);
        let saved = crate::c12::silence_stdout();
        let out = run_case(&scn, &scratch, &fakebin);
        crate::c12::restore_stdout(saved);
        let _ = std::fs::remove_dir_all(&scratch);
        for f in &out.findings {
            println!("FINDING {} :: {}", f.fingerprint, f.detail);
        }
        std::process::exit(0);
    }
    if let Some(spec) = par::worker_spec(args) {
        worker(args, spec);
        return;
    }
    let t0 = std::time::Instant::now();
    par::install_quiet_panic_hook();
    let tier = simcore::tier(args);
    let root = simcore::root_seed(args);
    let nw = par::nworkers(args);
    let results = par::run_workers(args, nw);
    let mut total = 0u64;
    let mut counters: BTreeMap<String, u64> = BTreeMap::new();
    let mut shapes: BTreeSet<String> = BTreeSet::new();
    let mut samples: Vec<Value> = Vec::new();
    let mut viols: Vec<Value> = Vec::new();
    let mut aborted_workers = 0;
    for r in &results {
        total += r["runs"].as_u64().unwrap_or(0);
        report::add_counters(&mut counters, &r["counters"]);
        for s in r["shapes"].as_array().cloned().unwrap_or_default() {
            shapes.insert(s.as_str().unwrap_or("").to_string());
        }
        samples.extend(r["samples"].as_array().cloned().unwrap_or_default());
        if r["aborted"].as_bool().unwrap_or(false) {
            aborted_workers += 1;
        }
        viols.extend(r["violations"].as_array().cloned().unwrap_or_default());
    }
    // samples are the lowest-numbered qualifying cases, whatever the worker count
    samples.sort_by_key(|x| x["case"].as_u64().unwrap_or(u64::MAX));
    samples.truncate(3);
    viols.sort_by_key(|v| v["index"].as_u64().unwrap_or(0));
    let scratch = lsp::scratch_root("c14-parent");
    let fakebin = world::fakebin_dir(&scratch);
    let saved = crate::c12::silence_stdout();
    let mut seen: BTreeMap<String, u64> = BTreeMap::new();
    let mut out_viol = Vec::new();
    for v in &viols {
        let fp = v["fingerprint"].as_str().unwrap_or("").to_string();
        let c = seen.entry(fp.clone()).or_insert(0);
        *c += 1;
        if *c > 1 {
            continue;
        }
        let idx = v["index"].as_u64().unwrap_or(0);
        let mf: Features = serde_json::from_value(v["minimal"].clone()).unwrap_or_else(|_| random_features(mix(root, PROPERTY, idx)));
        let scn = build(&mf, mix(mix(root, PROPERTY, idx), "order", 0));
        // confirm the minimal scenario in this (single-threaded) process before it counts
        let again = run_case(&scn, &scratch, &fakebin);
        if !again.findings.iter().any(|f| f.fingerprint == fp) {
            crate::c12::restore_stdout(saved);
            if v["class"].as_str().unwrap_or("").contains("hang") {
                simcore::harness_error(&format!("case {idx}: watchdog hit under load did not reproduce alone: inconclusive"));
            }
            simcore::harness_error(&format!("case {idx}: finding {fp} did not reproduce when re-run: nondeterminism in the simulator"));
        }
        out_viol.push(Violation {
            property: PROPERTY.into(),
            class: v["class"].as_str().unwrap_or("").to_string(),
            fingerprint: fp.clone(),
            seed: mix(root, PROPERTY, idx),
            detail: format!(
                "{}\n  tree: {:?}\n  entry: {}",
                again.findings.iter().find(|f| f.fingerprint == fp).map(|f| f.detail.clone()).unwrap_or_default(),
                scn.tree.nodes.iter().map(|(p, _)| p.clone()).collect::<Vec<_>>(),
                scn.entry
            ),
            replay: json!({"engine": "worldsim", "check": "C14", "expect_fingerprint": fp, "scenario": scn}),
        });
    }
    crate::c12::restore_stdout(saved);
    let _ = std::fs::remove_dir_all(&scratch);
    let wall = t0.elapsed().as_secs_f64();
    let coverage = json!({
        "evaluations": total,
        "distinct_nontrivial": shapes.len(),
        "rule": "one evaluation = one generated project tree with one import edge under test (spelling: from/import, aliases, module-only; prefix: plain/../.../super/crate; target layout: .incn, .incan, mod.incn, mod.incan, symlink, ambiguous pairs, missing, directory named like a file, dangling/looping symlink, non-UTF-8, 1-3 cycles; placement: entry at root or nested, dependency-of-dependency flat/nested with decoy; item kinds def/model/const/class/enum, pub or private). Parties run on it: real collect_modules+check_file (two worlds: hash keys, creation order), a real language-server session in the simulator plus resolve_import_path, and `incan-cli --check` subprocesses for fault cases. Non-trivial = every case (each has >= 1 edge and two parties); distinct = distinct (category, spelling, prefix, layout, placement, item kind).",
        "samples": samples,
        "runs_per_hour": if wall > 0.0 { (total as f64 / wall * 3600.0) as u64 } else { 0 },
        "simulated_time": format!("{} executor steps of the language server across all sessions (no timers in the system)", counters.get("lsp_executor_steps").copied().unwrap_or(0)),
        "fault_kinds_fired": counters.iter().filter(|(k, _)| k.starts_with("fs_")).map(|(k, v)| (k.clone(), json!(v))).collect::<BTreeMap<_, _>>(),
        "counters": counters,
        "findings_total": viols.len(),
        "finding_fingerprints": seen,
        "workers": nw,
        "workers_stopped_by_watchdog": aborted_workers,
        "real_vs_stub": {
            "real": ["cli::commands::collect_modules / check_file", "incan-cli --check subprocess", "IncanLanguageServer behind tower-lsp serve", "frontend::module::resolve_import_path", "typechecker visibility checks"],
            "stub": ["editor (opens the entry document)", "stdio pipes + executor", "cargo (never invoked by --check)"]
        }
    });
    report::finish(Outcome {
        property: PROPERTY.into(),
        tier,
        seed: root,
        level: "exploration".into(),
        coverage,
        assumptions: vec![
            "which file a party loaded is read from unique per-file markers (compiler: ParsedModule.source / path in the error message; server: URIs it publishes dependency diagnostics for)".into(),
            "the library-level ModuleResolver/ModuleCollector are not parties: the statement binds the command-line compiler and the language server".into(),
            "visibility: only the compiler's verdict decides a violation".into(),
        ],
        wall_s: wall,
        violations: out_viol,
        occurrences: seen.clone(),
    });
}

pub fn replay(doc: &Value, path: &str) -> ! {
    par::install_quiet_panic_hook();
    let rp = &doc["replay"];
    let scn: Scn = serde_json::from_value(rp["scenario"].clone()).unwrap_or_else(|e| simcore::harness_error(&format!("scenario: {e}")));
    let fp = rp["expect_fingerprint"].as_str().unwrap_or("").to_string();
    let scratch = lsp::scratch_root("c14-replay");
    let fakebin = world::fakebin_dir(&scratch);
    let saved = crate::c12::silence_stdout();
    let out = run_case(&scn, &scratch, &fakebin);
    crate::c12::restore_stdout(saved);
    let _ = std::fs::remove_dir_all(&scratch);
    for f in &out.findings {
        println!("finding: {} — {}", f.fingerprint, f.detail);
    }
    if out.findings.iter().any(|f| f.fingerprint == fp) {
        println!("VIOLATION property={PROPERTY} replay={path}");
        println!("REPRODUCED fingerprint={fp}");
        std::process::exit(1);
    }
    println!("NOT-REPRODUCED fingerprint={fp} (the tree no longer fails this replay)");
    std::process::exit(0);
}

#[allow(dead_code)]
fn unused(_: PathBuf, _: u64) -> u64 {
    fnv(b"")
}
