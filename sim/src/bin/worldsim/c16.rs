//! C16 — `incan test` reports the truth (DESIGN.md §3.4).
//!
//! The real `incan-cli test` process runs on a generated test tree; the `cargo` it spawns is the simulated one, whose
//! behaviour per scenario is a small model of `cargo test`, a told verdict, or an injected fault. An executable model
//! of the documented runner semantics is the oracle.

use crate::world::{self, Tree};
use serde::{Deserialize, Serialize};
use serde_json::{json, Value};
use simcore::report::{self, Outcome, Violation};
use simcore::{fnv, mix, par, Rng, Tier};
use std::collections::{BTreeMap, BTreeSet};
use std::path::Path;

const PROPERTY: &str = "C16";
pub const FAULTS: [&str; 7] = ["build_fail", "signal", "garbage", "empty_fail", "huge", "ok_then_signal", "ok_then_exit1"];

#[derive(Serialize, Deserialize, Clone, Debug, PartialEq)]
pub struct TestFn {
    pub name: String,
    pub outcome: String, // pass | fail | panic
    pub skip: bool,
    pub xfail: bool,
    pub slow: bool,
    pub fixture_param: bool,
    pub is_async: bool,
    /// decorator lines in source order (when a test carries several markers their order is part of the input)
    #[serde(default)]
    pub marker_order: Vec<String>,
}

#[derive(Serialize, Deserialize, Clone, Debug, PartialEq)]
pub struct TestFile {
    pub path: String,
    pub tests: Vec<TestFn>,
    /// decoy: looks like a test file but must not be discovered (wrong extension, hidden dir, target/, ...)
    pub discoverable: bool,
    pub parses: bool,
}

#[derive(Serialize, Deserialize, Clone, Debug)]
pub struct Scn {
    pub files: Vec<TestFile>,
    pub extra_files: Vec<(String, String)>,
    pub path_arg: String,
    pub flags: Vec<String>,
    pub cargo_mode: String, // model | told
    pub faults: BTreeMap<String, String>,
    pub no_cargo: bool,
    pub order: Vec<usize>,
    /// directories between the working directory and the project ("" | ".ci/" | "target/" | "node_modules/dep/"): the
    /// exclusion rules are about directories found *below* the given path, not about how the path itself is spelled
    #[serde(default)]
    pub root_prefix: String,
    /// the simulated cargo derives each test's outcome from the body found in the generated harness (needed when two
    /// files define a test of the same name with different bodies)
    #[serde(default)]
    pub outcomes_from_body: bool,
}

fn render_file(f: &TestFile) -> String {
    let stem = f.path.rsplit('/').next().unwrap_or("t").trim_end_matches(".incn").replace('.', "_");
    let mut s = String::new();
    s.push_str("\"\"\"generated test file\"\"\"\n\nfrom testing import assert_eq, fail\n\n");
    s.push_str(&format!("def helper_{stem}(x: int) -> int:\n    return x + 1\n\n"));
    s.push_str(&format!("def testing_decoy_{stem}() -> int:\n    return 0\n\n"));
    if f.tests.iter().any(|t| t.fixture_param) {
        s.push_str(&format!("@fixture\ndef fx_{stem}() -> int:\n    return 1\n\n"));
    }
    for t in &f.tests {
        let mut order: Vec<String> = t.marker_order.clone();
        for (flag, name) in [(t.skip, "skip"), (t.xfail, "xfail"), (t.slow, "slow")] {
            if flag && !order.iter().any(|m| m == name) {
                order.push(name.to_string());
            }
        }
        for m in &order {
            match m.as_str() {
                "skip" if t.skip => s.push_str("@skip(\"not now\")\n"),
                "xfail" if t.xfail => s.push_str("@xfail(\"known\")\n"),
                "slow" if t.slow => s.push_str("@slow\n"),
                _ => {}
            }
        }
        let params = if t.fixture_param { format!("fx_{stem}: int") } else { String::new() };
        let kw = if t.is_async { "async def" } else { "def" };
        s.push_str(&format!("{kw} {}({params}) -> None:\n", t.name));
        match t.outcome.as_str() {
            "pass" => s.push_str(&format!("    assert_eq(helper_{stem}(1), 2)\n\n")),
            "fail" => s.push_str(&format!("    assert_eq(helper_{stem}(1), 3)\n\n")),
            _ => s.push_str("    fail(\"boom\")\n\n"),
        }
    }
    if !f.parses {
        s.push_str("def test_broken( -> None:\n    pass\n");
    }
    s
}

pub fn tree_of(scn: &Scn) -> Tree {
    let mut t = Tree::default();
    for f in &scn.files {
        t.file(&f.path, &render_file(f));
    }
    for (p, c) in &scn.extra_files {
        t.file(p, c);
    }
    t
}

pub fn gen_scn(seed: u64) -> Scn {
    let mut r = Rng::new(seed);
    let nfiles = r.range(1, 3);
    let words = ["alpha", "beta", "gamma", "delta", "io", "parse", "net", "math"];
    let mut files = Vec::new();
    let mut used = BTreeSet::new();
    let mut all_names: Vec<String> = Vec::new();
    let mut duplicates = false;
    let in_tests_dir = r.chance(1, 3);
    for i in 0..nfiles {
        let base = if r.chance(1, 2) { format!("test_{}{i}.incn", r.pick(&words)) } else { format!("{}{i}_test.incn", r.pick(&words)) };
        let dir = match r.below(4) {
            0 => "sub/".to_string(),
            1 => "sub/deeper/".to_string(),
            _ => String::new(),
        };
        let path = format!("{}{}{}", if in_tests_dir { "tests/" } else { "" }, dir, base);
        let nt = r.range(1, 5);
        let mut tests = Vec::new();
        for j in 0..nt {
            let mut name = format!("test_{}_{}{}", r.pick(&words), r.pick(&words), j);
            if r.chance(1, 6) {
                if let Some(prev) = all_names.last() {
                    // a name that extends (or is extended by) another test's name
                    name = format!("{prev}_more");
                }
            }
            if r.chance(1, 12) && i > 0 && !all_names.is_empty() {
                // the same test name as in another file, with its own body
                name = r.pick(&all_names).clone();
                duplicates = true;
            } else {
                while !used.insert(name.clone()) {
                    name.push('x');
                }
            }
            all_names.push(name.clone());
            let outcome = match r.below(10) {
                0..=5 => "pass",
                6..=8 => "fail",
                _ => "panic",
            };
            let m = r.below(12);
            let (skip, xfail) = match m {
                0 | 1 => (true, false),
                2 | 3 => (false, true),
                4 => (true, true), // both markers: @skip still means "not run"
                _ => (false, false),
            };
            let slow = r.chance(1, 6);
            let mut marker_order: Vec<String> = Vec::new();
            for (flag, name) in [(skip, "skip"), (xfail, "xfail"), (slow, "slow")] {
                if flag {
                    marker_order.push(name.to_string());
                }
            }
            r.shuffle(&mut marker_order);
            if tests.iter().any(|t: &TestFn| t.name == name) {
                continue;
            }
            let fixture_param = r.chance(1, 10);
            // async tests are run through #[tokio::test]
            let is_async = !fixture_param && r.chance(1, 10);
            tests.push(TestFn { name, outcome: outcome.to_string(), skip, xfail, slow, fixture_param, is_async, marker_order });
        }
        files.push(TestFile { path, tests, discoverable: true, parses: !r.chance(1, 25) });
    }
    // decoys
    let mut extra = Vec::new();
    if r.chance(1, 2) {
        extra.push(("helpers.incn".to_string(), "def test_not_a_test_file() -> None:\n    pass\n".to_string()));
    }
    if r.chance(1, 3) {
        extra.push(("test_notes.txt".to_string(), "def test_txt() -> None:\n    pass\n".to_string()));
    }
    let decoy = |path: &str, name: &str| TestFile {
        path: path.to_string(),
        tests: vec![TestFn { name: name.to_string(), outcome: "fail".into(), skip: false, xfail: false, slow: false, fixture_param: false, is_async: false, marker_order: vec![] }],
        discoverable: false,
        parses: true,
    };
    if r.chance(1, 3) {
        files.push(decoy("target/test_in_target.incn", "test_in_target"));
    }
    if r.chance(1, 3) {
        files.push(decoy(".hidden/test_hidden.incn", "test_hidden"));
    }
    if r.chance(1, 4) {
        files.push(decoy("node_modules/test_nm.incn", "test_nm"));
    }
    if r.chance(1, 4) {
        files.push(decoy("test_wrong_ext.incan", "test_wrong_ext"));
    }
    // flags
    let mut flags = Vec::new();
    if r.chance(1, 3) {
        // keyword: a word, a full name, or something matching nothing
        let all: Vec<&TestFn> = files.iter().filter(|f| f.discoverable).flat_map(|f| f.tests.iter()).collect();
        let k = match r.below(4) {
            0 if !all.is_empty() => r.pick(&all).name.clone(),
            1 => "zzz_nomatch".to_string(),
            _ => r.pick(&words).to_string(),
        };
        flags.push("-k".to_string());
        flags.push(k);
    }
    if r.chance(1, 3) {
        flags.push("--slow".into());
    }
    if r.chance(1, 5) {
        flags.push("-x".into());
    }
    if r.chance(1, 5) {
        flags.push("--fail-on-empty".into());
    }
    if r.chance(1, 4) {
        flags.push("-v".into());
    }
    let path_arg = if in_tests_dir && r.chance(1, 2) {
        "tests".to_string()
    } else if r.chance(1, 8) {
        files[0].path.clone()
    } else {
        ".".to_string()
    };
    let outcomes_from_body = duplicates;
    let n_nodes = files.len() + extra.len();
    let mut order: Vec<usize> = (0..n_nodes).collect();
    r.shuffle(&mut order);
    Scn {
        files,
        extra_files: extra,
        path_arg,
        flags,
        // told verdicts are keyed by test name: with duplicate names only the model (outcome from the harness body) can tell
        cargo_mode: if duplicates || r.chance(1, 2) { "model" } else { "told" }.to_string(),
        faults: BTreeMap::new(),
        no_cargo: false,
        order,
        root_prefix: r.pick(&["", "", "", ".ci/", "target/", "node_modules/dep/", "ws/"]).to_string(),
        outcomes_from_body,
    }
}

// ------------------------------------------------------------------------------------------------ the runner model

#[derive(Clone, Debug, PartialEq)]
pub struct Expected {
    /// no test files found at all => error exit
    pub no_files: bool,
    /// selected tests in execution order
    pub selected: Vec<(String, TestFn)>, // (file name, test)
}

fn path_components(p: &str) -> Vec<String> {
    p.split('/').map(|s| s.to_string()).collect()
}

/// Documented semantics: discovery by file name under the path argument (skipping hidden dirs, target, node_modules),
/// sorted by path; tests = functions named test_*; `-k` keeps names containing the keyword; `@slow` needs `--slow`.
pub fn model(scn: &Scn) -> Expected {
    let arg = scn.path_arg.trim_end_matches('/').to_string();
    let mut found: Vec<&TestFile> = Vec::new();
    for f in &scn.files {
        let name = f.path.rsplit('/').next().unwrap_or("");
        let name_ok = (name.starts_with("test_") || name.ends_with("_test.incn")) && name.ends_with(".incn");
        if !name_ok {
            continue;
        }
        if arg == f.path {
            found.push(f);
            continue;
        }
        let rel = if arg == "." {
            f.path.clone()
        } else if let Some(r) = f.path.strip_prefix(&format!("{arg}/")) {
            r.to_string()
        } else {
            continue;
        };
        let comps = path_components(&rel);
        let dirs = &comps[..comps.len() - 1];
        if dirs.iter().any(|d| d.starts_with('.') || d == "target" || d == "node_modules") {
            continue;
        }
        found.push(f);
    }
    found.sort_by_key(|f| path_components(&f.path));
    let no_files = found.is_empty();
    let kw = scn.flags.iter().position(|f| f == "-k").and_then(|i| scn.flags.get(i + 1)).cloned();
    let slow = scn.flags.iter().any(|f| f == "--slow");
    let mut selected = Vec::new();
    for f in found {
        if !f.parses {
            continue; // a file that does not parse contributes no tests (the runner prints an error for it)
        }
        let fname = f.path.rsplit('/').next().unwrap_or("").to_string();
        for t in &f.tests {
            if let Some(k) = &kw {
                if !t.name.contains(k.as_str()) {
                    continue;
                }
            }
            if t.slow && !slow {
                continue;
            }
            selected.push((fname.clone(), t.clone()));
        }
    }
    Expected { no_files, selected }
}

// ------------------------------------------------------------------------------------------------ execution + oracle

#[derive(Clone, Debug)]
pub struct Finding {
    pub class: String,
    pub fingerprint: String,
    pub detail: String,
}

pub struct RunOut {
    pub findings: Vec<Finding>,
    pub verdict_lines: Vec<(String, String, String)>,
    pub cargo_calls: usize,
    pub faults_fired: BTreeMap<String, u64>,
    pub stdout: String,
    pub stderr: String,
    pub code: Option<i32>,
}

fn parse_verdicts(out: &str) -> Vec<(String, String, String)> {
    let mut v = Vec::new();
    for l in out.lines() {
        let Some((file, rest)) = l.split_once("::") else { continue };
        let mut it = rest.split_whitespace();
        let (Some(name), Some(status)) = (it.next(), it.next()) else { continue };
        if ["PASSED", "FAILED", "SKIPPED", "XFAIL", "XPASS"].contains(&status) && !file.contains(' ') {
            v.push((file.to_string(), name.to_string(), status.to_string()));
        }
    }
    v
}

fn parse_summary(out: &str) -> Option<BTreeMap<String, u64>> {
    let line = out.lines().rev().find(|l| l.starts_with("=====") && l.contains(" in ") && l.trim_end().ends_with('='))?;
    let inner = line.trim_matches('=').trim();
    let body = inner.rsplit_once(" in ")?.0;
    let mut m = BTreeMap::new();
    for part in body.split(',') {
        let mut it = part.split_whitespace();
        if let (Some(n), Some(k)) = (it.next(), it.next()) {
            if let Ok(n) = n.parse::<u64>() {
                m.insert(k.to_string(), n);
            }
        }
    }
    Some(m)
}

fn feature_string(t: &TestFn, scn: &Scn) -> String {
    let mut f = Vec::new();
    if t.skip && t.xfail {
        let first = t.marker_order.iter().find(|m| *m == "skip" || *m == "xfail").map(|m| m.as_str()).unwrap_or("skip");
        f.push(if first == "skip" { "skip-above-xfail" } else { "xfail-above-skip" });
    } else if t.skip {
        f.push("skip");
    } else if t.xfail {
        f.push("xfail");
    }
    if t.slow {
        f.push("slow");
    }
    if t.fixture_param {
        f.push("fixture-param");
    }
    let fault = scn.faults.get(&t.name).cloned().unwrap_or_default();
    format!(
        "{}|designed-{}|cargo={}{}{}",
        if f.is_empty() { "plain".to_string() } else { f.join("+") },
        t.outcome,
        if scn.no_cargo { "absent" } else { scn.cargo_mode.as_str() },
        if fault.is_empty() { "" } else { "|fault=" },
        fault
    )
}

pub fn run_scn(scn: &Scn, scratch: &Path, tag: &str) -> RunOut {
    let cwd = scratch.join(tag);
    let root = cwd.join(format!("{}proj", scn.root_prefix));
    let _ = std::fs::remove_dir_all(&cwd);
    tree_of(scn).materialise(&root, Some(&scn.order));
    let fakebin = if scn.no_cargo {
        let d = scratch.join("emptybin");
        let _ = std::fs::create_dir_all(&d);
        d
    } else {
        world::fakebin_dir(scratch)
    };
    let journal = scratch.join(format!("{tag}.journal"));
    let scenario = scratch.join(format!("{tag}.scenario.json"));
    let _ = std::fs::remove_file(&journal);
    let mut outcomes = BTreeMap::new();
    for f in &scn.files {
        for t in &f.tests {
            outcomes.insert(t.name.clone(), t.outcome.clone());
        }
    }
    let _ = std::fs::write(&scenario, json!({"mode": scn.cargo_mode, "outcomes": outcomes, "faults": scn.faults, "outcomes_from_body": scn.outcomes_from_body}).to_string());
    let real = scn.cargo_mode == "real";
    let mut env = if real {
        // calibration: the real cargo and rustc, offline, with a target directory shared by all tests of the run
        vec![
            ("PATH".to_string(), "/root/.cargo/bin:/usr/local/bin:/usr/bin:/bin".to_string()),
            ("CARGO_NET_OFFLINE".into(), "true".into()),
            ("CARGO_TARGET_DIR".into(), scratch.join("real-cargo-target").to_string_lossy().to_string()),
            ("CARGO_TERM_COLOR".into(), "never".into()),
        ]
    } else {
        vec![("PATH".to_string(), fakebin.to_string_lossy().to_string())]
    };
    env.push(("FAKE_CARGO_JOURNAL".into(), journal.to_string_lossy().to_string()));
    env.push(("FAKE_CARGO_SCENARIO".into(), scenario.to_string_lossy().to_string()));
    env.push(("HOME".into(), "/root".into()));
    let mut args: Vec<String> = vec!["--no-banner".into(), "--color".into(), "never".into(), "test".into()];
    args.extend(scn.flags.iter().cloned());
    args.push(if scn.path_arg == "." { format!("{}proj", scn.root_prefix) } else { format!("{}proj/{}", scn.root_prefix, scn.path_arg) });
    let r = world::run_proc(&world::cli_path(), &args, &cwd, &env, if real { 1_200_000 } else { 120_000 });
    if let Some(e) = &r.spawn_error {
        simcore::harness_error(&format!("cannot spawn incan-cli: {e}"));
    }
    if real {
        // keep the generated harnesses for the model comparison
        return real_cargo_out(scn, &cwd, r);
    }
    let stdout = r.out_str();
    let stderr = r.err_str();
    let jr: Vec<Value> = std::fs::read_to_string(&journal)
        .unwrap_or_default()
        .lines()
        .filter_map(|l| serde_json::from_str(l).ok())
        .collect();
    let _ = std::fs::remove_dir_all(&cwd);
    let _ = std::fs::remove_file(&journal);
    let _ = std::fs::remove_file(&scenario);

    let mut findings = Vec::new();
    let mut faults_fired: BTreeMap<String, u64> = BTreeMap::new();
    for j in &jr {
        let m = j["mode"].as_str().unwrap_or("");
        if FAULTS.contains(&m) {
            *faults_fired.entry(m.to_string()).or_insert(0) += 1;
        }
    }
    if scn.no_cargo {
        *faults_fired.entry("spawn_failure(no cargo on PATH)".into()).or_insert(0) += 1;
    }
    let exp = model(scn);
    let verdicts = parse_verdicts(&stdout);
    let mut out = RunOut { findings: Vec::new(), verdict_lines: verdicts.clone(), cargo_calls: jr.len(), faults_fired, stdout: stdout.clone(), stderr: stderr.clone(), code: r.code };
    let scn_shape = format!("flags={:?}", scn.flags.iter().filter(|f| f.starts_with('-')).collect::<Vec<_>>());
    if r.timed_out || r.signal.is_some() || r.code.is_none() || stderr.contains("panicked at") {
        findings.push(Finding {
            class: "runner-crash".into(),
            fingerprint: format!("runner-crash|{scn_shape}"),
            detail: format!("incan test did not end normally: code={:?} signal={:?} timeout={} stderr={}", r.code, r.signal, r.timed_out, trunc(&stderr, 300)),
        });
        out.findings = findings;
        return out;
    }
    let code = r.code.unwrap_or(-1);
    if exp.no_files {
        if code == 0 || !verdicts.is_empty() {
            findings.push(Finding { class: "exit-wrong".into(), fingerprint: "no-test-files|exit0".into(), detail: format!("no test file under {:?} but exit code {code}, verdicts {:?}", scn.path_arg, verdicts) });
        }
        out.findings = findings;
        return out;
    }
    if exp.selected.is_empty() {
        let want_fail = scn.flags.iter().any(|f| f == "--fail-on-empty");
        if !verdicts.is_empty() || (code != 0) != want_fail {
            findings.push(Finding {
                class: "selection-wrong".into(),
                fingerprint: format!("empty-selection|fail-on-empty={want_fail}|exit={code}"),
                detail: format!("nothing is selected (flags {:?}) but verdict lines {:?}, exit {code}", scn.flags, verdicts),
            });
        }
        out.findings = findings;
        return out;
    }
    // ---- per-test verdicts
    let stop_first = scn.flags.iter().any(|f| f == "-x");
    let mut expect_lines: Vec<(String, String, String, TestFn)> = Vec::new(); // (file, name, verdict, test)
    let mut seen_by_name: BTreeMap<String, usize> = BTreeMap::new();
    for (fname, t) in &exp.selected {
        // tests of the same name (in different files) are handed to cargo one after the other from the same directory
        let all_inv: Vec<&Value> = jr.iter().filter(|j| j["cwd"].as_str().map(|c| c.ends_with(&format!("/target/incan_tests/{}", t.name))).unwrap_or(false)).collect();
        let same_name_runnable = exp.selected.iter().filter(|(_, o)| o.name == t.name && !o.skip).count();
        let k = if t.skip { usize::MAX } else { let e = seen_by_name.entry(t.name.clone()).or_insert(0); *e += 1; *e - 1 };
        let inv: Vec<&Value> = if t.skip {
            if same_name_runnable == 0 { all_inv.clone() } else { Vec::new() }
        } else if all_inv.len() > same_name_runnable {
            all_inv.clone() // more invocations than tests of that name: reported below as ran-twice
        } else {
            all_inv.get(k).cloned().into_iter().collect()
        };
        let verdict = if t.skip {
            if !inv.is_empty() {
                findings.push(Finding {
                    class: "skip-ran".into(),
                    fingerprint: format!("skip-ran|{}", feature_string(t, scn)),
                    detail: format!("@skip test {} was handed to cargo ({} invocation(s))", t.name, inv.len()),
                });
            }
            "SKIPPED".to_string()
        } else {
            // what really happened at the process boundary decides what is truthful
            let raw = if scn.no_cargo {
                "FAILED"
            } else if let Some(j) = inv.first() {
                let mode = j["mode"].as_str().unwrap_or("");
                if FAULTS.contains(&mode) {
                    "FAILED"
                } else {
                    let ran: Vec<(String, String)> = j["ran"].as_array().map(|a| a.iter().filter_map(|x| Some((x[0].as_str()?.to_string(), x[1].as_str()?.to_string()))).collect()).unwrap_or_default();
                    match ran.iter().find(|(n, _)| n == &t.name) {
                        None => "NOT-RUN", // body never ran: must not be reported as passed
                        Some((_, o)) if scn.outcomes_from_body && o != &t.outcome => {
                            // the harness contains a function of that name, but not this file's body
                            findings.push(Finding {
                                class: "wrong-body-ran".into(),
                                fingerprint: format!("wrong-body-ran|{}", feature_string(t, scn)),
                                detail: format!("{fname}::{} is designed to {}, the body cargo found in its harness would {o}: another file's function of the same name (or a stale harness) was run", t.name, t.outcome),
                            });
                            if o == "pass" { "PASSED" } else { "FAILED" }
                        }
                        Some((_, o)) if o == "pass" => {
                            if ran.iter().any(|(n, o)| n != &t.name && o != "pass") {
                                "PASS-WITH-FAILING-SIBLING"
                            } else {
                                "PASSED"
                            }
                        }
                        Some(_) => "FAILED",
                    }
                }
            } else {
                "NOT-INVOKED"
            };
            let v = match raw {
                "PASSED" => if t.xfail { "XPASS" } else { "PASSED" },
                "FAILED" => if t.xfail { "XFAIL" } else { "FAILED" },
                other => other,
            };
            if inv.len() > 1 {
                findings.push(Finding { class: "ran-twice".into(), fingerprint: format!("ran-twice|{}", feature_string(t, scn)), detail: format!("test {} was handed to cargo {} times", t.name, inv.len()) });
            }
            v.to_string()
        };
        expect_lines.push((fname.clone(), t.name.clone(), verdict, t.clone()));
    }
    // compare line by line (with -x the run may stop after the first FAILED)
    let mut stopped = false;
    for (i, (fname, name, want, t)) in expect_lines.iter().enumerate() {
        let got = verdicts.get(i);
        if stopped {
            break;
        }
        let Some((gf, gn, gv)) = got else {
            findings.push(Finding {
                class: "selection-wrong".into(),
                fingerprint: format!("missing-verdict|{}", feature_string(t, scn)),
                detail: format!("selected test {fname}::{name} has no verdict line (got {} lines, expected {}; flags {:?})", verdicts.len(), expect_lines.len(), scn.flags),
            });
            break;
        };
        if gn != name || gf != fname {
            findings.push(Finding {
                class: "selection-wrong".into(),
                fingerprint: format!("wrong-test-or-order|{scn_shape}"),
                detail: format!("verdict line {i} is {gf}::{gn}, the documented selection/order gives {fname}::{name} (flags {:?}, path {:?})", scn.flags, scn.path_arg),
            });
            break;
        }
        let ok = match want.as_str() {
            // body never ran (harness does not contain/execute the selected function): anything but a pass is truthful
            "NOT-RUN" | "NOT-INVOKED" => gv != "PASSED" && gv != "XPASS" && !(t.xfail && gv == "XFAIL" && false),
            // the selected body passed but another function in the harness failed: reporting FAILED contradicts "ran to completion"
            "PASS-WITH-FAILING-SIBLING" => gv == if t.xfail { "XPASS" } else { "PASSED" },
            w => gv == w,
        };
        if !ok {
            let class = match (want.as_str(), gv.as_str()) {
                ("NOT-RUN", _) | ("NOT-INVOKED", _) => "false-pass",
                ("FAILED", "PASSED") | ("XFAIL", "XPASS") | ("FAILED", "XPASS") => "false-pass",
                ("PASSED", "FAILED") | ("PASS-WITH-FAILING-SIBLING", _) => "false-fail",
                ("SKIPPED", _) => "skip-ran",
                (_, _) if t.xfail => "xfail-wrong",
                _ => "verdict-wrong",
            };
            findings.push(Finding {
                class: class.into(),
                fingerprint: format!("{class}|{}|reported-{gv}", feature_string(t, scn)),
                detail: format!(
                    "{fname}::{name} reported {gv}; at the process boundary: {want} (designed outcome {}, markers skip={} xfail={} slow={}, cargo mode {}, fault {:?})",
                    t.outcome, t.skip, t.xfail, t.slow, if scn.no_cargo { "absent" } else { &scn.cargo_mode }, scn.faults.get(name)
                ),
            });
        }
        if stop_first && gv == "FAILED" {
            stopped = true;
        }
    }
    if !stopped && verdicts.len() > expect_lines.len() {
        let (gf, gn, gv) = &verdicts[expect_lines.len()];
        findings.push(Finding {
            class: "selection-wrong".into(),
            fingerprint: format!("extra-verdict|{scn_shape}"),
            detail: format!("{gf}::{gn} {gv} is reported but not selected by the documented rules (flags {:?}, path {:?})", scn.flags, scn.path_arg),
        });
    }
    // ---- counts and exit status are functions of the printed verdicts
    let mut counts: BTreeMap<String, u64> = BTreeMap::new();
    for (_, _, v) in &verdicts {
        let k = match v.as_str() {
            "PASSED" => "passed",
            "FAILED" => "failed",
            "SKIPPED" => "skipped",
            "XFAIL" => "xfailed",
            _ => "xpassed",
        };
        *counts.entry(k.to_string()).or_insert(0) += 1;
    }
    match parse_summary(&stdout) {
        None => findings.push(Finding { class: "counts-wrong".into(), fingerprint: "no-summary-line".into(), detail: format!("no summary line in output: {}", trunc(&stdout, 300)) }),
        Some(s) => {
            if s != counts {
                findings.push(Finding { class: "counts-wrong".into(), fingerprint: format!("counts-wrong|{scn_shape}"), detail: format!("summary says {s:?}, verdict lines give {counts:?}") });
            }
        }
    }
    let should_fail = verdicts.iter().any(|(_, _, v)| v == "FAILED" || v == "XPASS");
    if (code != 0) != should_fail {
        findings.push(Finding {
            class: "exit-wrong".into(),
            fingerprint: format!("exit-wrong|exit={code}|failed-or-xpass={should_fail}"),
            detail: format!("exit status {code} but verdicts {:?}", verdicts.iter().map(|v| v.2.clone()).collect::<Vec<_>>()),
        });
    }
    out.findings = findings;
    out
}

/// Real-cargo run: verdicts are compared with the designed outcomes directly (the bodies really run).
fn real_cargo_out(scn: &Scn, root: &Path, r: world::ProcOut) -> RunOut {
    let stdout = r.out_str();
    let stderr = r.err_str();
    let verdicts = parse_verdicts(&stdout);
    let exp = model(scn);
    let mut findings = Vec::new();
    if r.timed_out || r.signal.is_some() || r.code.is_none() {
        findings.push(Finding { class: "runner-crash".into(), fingerprint: "real-cargo|runner-crash".into(), detail: format!("incan test with real cargo did not end normally: {:?} {:?} {}", r.code, r.signal, trunc(&stderr, 300)) });
    }
    for (i, (fname, t)) in exp.selected.iter().enumerate() {
        let want = if t.skip {
            "SKIPPED"
        } else if t.fixture_param {
            // the harness cannot run functions taking fixture parameters: never PASSED
            if t.xfail { "XFAIL" } else { "FAILED" }
        } else {
            match (t.outcome.as_str(), t.xfail) {
                ("pass", false) => "PASSED",
                ("pass", true) => "XPASS",
                (_, false) => "FAILED",
                (_, true) => "XFAIL",
            }
        };
        match verdicts.get(i) {
            Some((gf, gn, gv)) if gf == fname && gn == &t.name => {
                if gv != want {
                    let class = if gv == "PASSED" || gv == "XPASS" { "false-pass" } else { "false-fail" };
                    findings.push(Finding {
                        class: class.into(),
                        fingerprint: format!("real-cargo|{class}|{}|reported-{gv}", feature_string(t, scn)),
                        detail: format!("with the real cargo, {fname}::{} (body designed to {}) is reported {gv}, truthful is {want}", t.name, t.outcome),
                    });
                }
            }
            other => findings.push(Finding { class: "selection-wrong".into(), fingerprint: "real-cargo|selection".into(), detail: format!("verdict line {i}: {other:?}, expected {fname}::{}", t.name) }),
        }
    }
    let should_fail = verdicts.iter().any(|(_, _, v)| v == "FAILED" || v == "XPASS");
    if (r.code.unwrap_or(-1) != 0) != should_fail {
        findings.push(Finding { class: "exit-wrong".into(), fingerprint: "real-cargo|exit".into(), detail: format!("exit {:?} with verdicts {:?}", r.code, verdicts) });
    }
    let _ = std::fs::remove_dir_all(root);
    RunOut { findings, verdict_lines: verdicts, cargo_calls: 0, faults_fired: BTreeMap::new(), stdout, stderr, code: r.code }
}

/// The calibration scenario: one of everything, bodies that really pass / fail an assertion / panic.
pub fn calibration_scn() -> Scn {
    let t = |name: &str, outcome: &str, skip: bool, xfail: bool, slow: bool, fx: bool| TestFn { name: name.into(), outcome: outcome.into(), skip, xfail, slow, fixture_param: fx, is_async: false, marker_order: vec![] };
    Scn {
        files: vec![TestFile {
            path: "test_calibration.incn".into(),
            tests: vec![
                t("test_cal_pass", "pass", false, false, false, false),
                t("test_cal_fail", "fail", false, false, false, false),
                t("test_cal_panic", "panic", false, false, false, false),
                t("test_cal_xfail_fails", "fail", false, true, false, false),
                t("test_cal_xfail_passes", "pass", false, true, false, false),
                t("test_cal_skipped", "fail", true, false, false, false),
                t("test_cal_slow", "pass", false, false, true, false),
                t("test_cal_fixture", "pass", false, false, false, true),
            ],
            discoverable: true,
            parses: true,
        }],
        extra_files: vec![],
        path_arg: ".".into(),
        flags: vec!["--slow".into()],
        cargo_mode: "real".into(),
        faults: BTreeMap::new(),
        no_cargo: false,
        order: vec![0],
        root_prefix: String::new(),
        outcomes_from_body: false,
    }
}

fn trunc(s: &str, n: usize) -> String {
    if s.len() <= n {
        s.to_string()
    } else {
        let mut e = n;
        while !s.is_char_boundary(e) {
            e -= 1;
        }
        format!("{}…", &s[..e])
    }
}

// ------------------------------------------------------------------------------------------------ batch

fn budget(t: Tier) -> u64 {
    match t {
        Tier::Quick => simcore::scaled(260),
        Tier::Thorough => simcore::scaled(1200),
    }
}

/// Variants of base scenario i: the fault-free run plus injected faults (enumerated exhaustively in the thorough tier).
fn variants(base: &Scn, seed: u64, tier: Tier) -> Vec<Scn> {
    let mut v = vec![base.clone()];
    let exp = model(base);
    let runnable: Vec<&TestFn> = exp.selected.iter().map(|(_, t)| t).filter(|t| !t.skip).collect();
    let mut r = Rng::new(mix(seed, "faults", 0));
    if tier == Tier::Thorough {
        for t in runnable.iter().take(4) {
            for f in FAULTS {
                let mut s = base.clone();
                s.faults.insert(t.name.clone(), f.to_string());
                v.push(s);
            }
        }
        let mut s = base.clone();
        s.no_cargo = true;
        v.push(s);
    } else {
        if !runnable.is_empty() {
            for _ in 0..2 {
                let mut s = base.clone();
                s.faults.insert(r.pick(&runnable).name.clone(), r.pick(&FAULTS).to_string());
                v.push(s);
            }
        }
        if r.chance(1, 4) {
            let mut s = base.clone();
            s.no_cargo = true;
            v.push(s);
        }
    }
    v
}

fn worker(args: &[String], spec: par::WorkerSpec) {
    par::install_quiet_panic_hook();
    let root = simcore::root_seed(args);
    let tier = simcore::tier(args);
    let n = budget(tier);
    let scratch = simcore::lsp::scratch_root(&format!("c16-w{}", spec.index));
    let mut viol: Vec<Value> = Vec::new();
    let mut counters: BTreeMap<String, u64> = BTreeMap::new();
    let mut shapes: BTreeSet<String> = BTreeSet::new();
    let mut samples: Vec<Value> = Vec::new();
    let mut runs = 0u64;
    let mut i = spec.index;
    while i < n {
        let seed = mix(root, PROPERTY, i);
        let base = gen_scn(seed);
        for (vi, scn) in variants(&base, seed, tier).iter().enumerate() {
            let out = run_scn(scn, &scratch, "t");
            runs += 1;
            *counters.entry("cli_processes".into()).or_insert(0) += 1;
            *counters.entry("cargo_invocations".into()).or_insert(0) += out.cargo_calls as u64;
            *counters.entry(format!("mode_{}", if scn.no_cargo { "no-cargo" } else { &scn.cargo_mode })).or_insert(0) += 1;
            for (k, c) in &out.faults_fired {
                *counters.entry(format!("fault_{k}")).or_insert(0) += c;
            }
            for (_, _, v) in &out.verdict_lines {
                *counters.entry(format!("verdict_{v}")).or_insert(0) += 1;
            }
            let exp = model(scn);
            if exp.selected.len() >= 2 || !scn.faults.is_empty() {
                shapes.insert(format!("{:x}", fnv(format!("{:?}|{:?}|{:?}|{}|{}", exp.selected, scn.flags, scn.faults, scn.cargo_mode, scn.no_cargo).as_bytes())));
            }
            if samples.len() < 2 && exp.selected.len() >= 2 {
                samples.push(json!({"case": i, "variant": vi, "files": scn.files.iter().map(|f| json!({"path": f.path, "tests": f.tests.iter().map(|t| format!("{}[{}{}{}{}]", t.name, t.outcome, if t.skip {",skip"} else {""}, if t.xfail {",xfail"} else {""}, if t.slow {",slow"} else {""})).collect::<Vec<_>>()})).collect::<Vec<_>>(), "argv": ["test", scn.flags.join(" "), scn.path_arg.clone()], "cargo": scn.cargo_mode, "faults": scn.faults, "verdicts": out.verdict_lines.iter().map(|v| format!("{}::{} {}", v.0, v.1, v.2)).collect::<Vec<_>>(), "exit": out.code}));
            }
            for f in &out.findings {
                viol.push(json!({"index": i, "variant": vi, "class": f.class, "fingerprint": f.fingerprint, "detail": f.detail}));
            }
        }
        i += spec.count;
    }
    let _ = std::fs::remove_dir_all(&scratch);
    par::emit_worker_result(&json!({"runs": runs, "violations": viol, "counters": counters, "shapes": shapes, "samples": samples}));
}

/// Drop test functions / files / flags while the same fingerprint persists.
fn minimise(scn: &Scn, fp: &str, scratch: &Path) -> Scn {
    let mut cur = scn.clone();
    let still = |s: &Scn| run_scn(s, scratch, "m").findings.iter().any(|f| f.fingerprint == fp);
    let mut budget = 60;
    let mut progress = true;
    while progress && budget > 0 {
        progress = false;
        // files
        let mut fi = 0;
        while fi < cur.files.len() && budget > 0 {
            if cur.files.len() > 1 {
                let mut c = cur.clone();
                c.files.remove(fi);
                c.order = (0..c.files.len() + c.extra_files.len()).collect();
                budget -= 1;
                if still(&c) {
                    cur = c;
                    progress = true;
                    continue;
                }
            }
            fi += 1;
        }
        // tests
        for fi in 0..cur.files.len() {
            let mut ti = 0;
            while ti < cur.files[fi].tests.len() && budget > 0 {
                if cur.files[fi].tests.len() > 1 {
                    let mut c = cur.clone();
                    c.files[fi].tests.remove(ti);
                    budget -= 1;
                    if still(&c) {
                        cur = c;
                        progress = true;
                        continue;
                    }
                }
                ti += 1;
            }
        }
        if !cur.root_prefix.is_empty() && budget > 0 {
            let mut c = cur.clone();
            c.root_prefix = String::new();
            budget -= 1;
            if still(&c) {
                cur = c;
                progress = true;
            }
        }
        // extra files and flags
        if !cur.extra_files.is_empty() && budget > 0 {
            let mut c = cur.clone();
            c.extra_files.clear();
            c.order = (0..c.files.len()).collect();
            budget -= 1;
            if still(&c) {
                cur = c;
                progress = true;
            }
        }
        let mut k = 0;
        while k < cur.flags.len() && budget > 0 {
            let mut c = cur.clone();
            if c.flags[k] == "-k" {
                c.flags.remove(k);
                if k < c.flags.len() {
                    c.flags.remove(k);
                }
            } else {
                c.flags.remove(k);
            }
            budget -= 1;
            if still(&c) {
                cur = c;
                progress = true;
            } else {
                k += if cur.flags[k] == "-k" { 2 } else { 1 };
            }
        }
    }
    cur
}

pub fn main(args: &[String]) {
    if let Some(spec) = par::worker_spec(args) {
        worker(args, spec);
        return;
    }
    let t0 = std::time::Instant::now();
    let tier = simcore::tier(args);
    let root = simcore::root_seed(args);
    let nw = par::nworkers(args);
    let results = par::run_workers(args, nw);
    let mut total = 0u64;
    let mut counters: BTreeMap<String, u64> = BTreeMap::new();
    let mut shapes: BTreeSet<String> = BTreeSet::new();
    let mut samples: Vec<Value> = Vec::new();
    let mut viols: Vec<Value> = Vec::new();
    for r in &results {
        total += r["runs"].as_u64().unwrap_or(0);
        report::add_counters(&mut counters, &r["counters"]);
        for s in r["shapes"].as_array().cloned().unwrap_or_default() {
            shapes.insert(s.as_str().unwrap_or("").to_string());
        }
        samples.extend(r["samples"].as_array().cloned().unwrap_or_default());
        viols.extend(r["violations"].as_array().cloned().unwrap_or_default());
    }
    // samples are the lowest-numbered qualifying cases, whatever the worker count
    samples.sort_by_key(|x| x["case"].as_u64().unwrap_or(u64::MAX));
    samples.truncate(3);
    viols.sort_by_key(|v| (v["index"].as_u64().unwrap_or(0), v["variant"].as_u64().unwrap_or(0)));
    let scratch = simcore::lsp::scratch_root("c16-parent");
    let mut seen_fp: BTreeMap<String, u64> = BTreeMap::new();
    let mut out_viol: Vec<Violation> = Vec::new();
    for v in &viols {
        let fp = v["fingerprint"].as_str().unwrap_or("").to_string();
        let n = seen_fp.entry(fp.clone()).or_insert(0);
        *n += 1;
        if *n > 1 {
            continue;
        }
        let idx = v["index"].as_u64().unwrap_or(0);
        let vi = v["variant"].as_u64().unwrap_or(0) as usize;
        let seed = mix(root, PROPERTY, idx);
        let vars = variants(&gen_scn(seed), seed, tier);
        let Some(scn) = vars.get(vi) else { continue };
        let again = run_scn(scn, &scratch, "c");
        if !again.findings.iter().any(|f| f.fingerprint == fp) {
            simcore::harness_error(&format!("case {idx}/{vi}: finding {fp} did not reproduce when re-run: nondeterminism in the simulator"));
        }
        let m = minimise(scn, &fp, &scratch);
        let fin = run_scn(&m, &scratch, "f");
        let detail = fin.findings.iter().find(|f| f.fingerprint == fp).map(|f| f.detail.clone()).unwrap_or_else(|| v["detail"].as_str().unwrap_or("").to_string());
        out_viol.push(Violation {
            property: PROPERTY.into(),
            class: v["class"].as_str().unwrap_or("").to_string(),
            fingerprint: fp.clone(),
            seed,
            detail: format!("{detail}\n  minimised scenario: argv=test {} {} ; cargo={}{} ; faults={:?}\n  output:\n{}", m.flags.join(" "), m.path_arg, m.cargo_mode, if m.no_cargo { " (absent from PATH)" } else { "" }, m.faults, trunc(&fin.stdout, 1200)),
            replay: json!({"engine": "worldsim", "check": "C16", "expect_fingerprint": fp, "scenario": m}),
        });
    }
    // ---- calibration of the stub against the real thing (thorough tier): same scenario with real cargo and with the model
    let mut calibration = json!("skipped in the quick tier");
    if tier == Tier::Thorough || simcore::arg_flag(args, "--calibrate") {
        let real = calibration_scn();
        let out_real = run_scn(&real, &scratch, "cal-real");
        let mut modelled = real.clone();
        modelled.cargo_mode = "model".into();
        let out_model = run_scn(&modelled, &scratch, "cal-model");
        let lr: Vec<String> = out_real.verdict_lines.iter().map(|v| format!("{}::{} {}", v.0, v.1, v.2)).collect();
        let lm: Vec<String> = out_model.verdict_lines.iter().map(|v| format!("{}::{} {}", v.0, v.1, v.2)).collect();
        if lr != lm || out_real.code != out_model.code {
            simcore::harness_error(&format!("calibration: the simulated cargo's model disagrees with real cargo on the calibration scenario\n real:  {lr:?} exit {:?}\n model: {lm:?} exit {:?}\n{}", out_real.code, out_model.code, trunc(&out_real.stderr, 600)));
        }
        for f in out_real.findings.iter().chain(out_model.findings.iter()) {
            out_viol.push(Violation {
                property: PROPERTY.into(),
                class: f.class.clone(),
                fingerprint: f.fingerprint.clone(),
                seed: 0,
                detail: format!("{}\n  (calibration scenario)\n{}", f.detail, trunc(&out_real.stdout, 1200)),
                replay: json!({"engine": "worldsim", "check": "C16", "expect_fingerprint": f.fingerprint, "scenario": real}),
            });
        }
        total += 2;
        calibration = json!({"real_cargo_verdicts": lr, "model_verdicts": lm, "exit": out_real.code, "agree": true});
    }
    let _ = std::fs::remove_dir_all(&scratch);
    let wall = t0.elapsed().as_secs_f64();
    let coverage = json!({
        "evaluations": total,
        "distinct_nontrivial": shapes.len(),
        "calibration_against_real_cargo": calibration,
        "rule": "one evaluation = one real `incan-cli test` process on a generated tree (1-3 test files in flat/nested/tests dirs, 1-5 test functions each with designed outcome pass/fail/panic, markers @skip/@xfail/@slow, fixture parameters, decoys in target/, hidden dirs, node_modules, wrong extensions, unparsable files; flags -k/--slow/-x/--fail-on-empty/-v) against the simulated cargo (model of cargo test reading the generated harness, or told verdicts) plus injected faults at the process boundary. Non-trivial = at least two selected tests or an injected fault; distinct = distinct (selection, flags, faults, cargo mode).",
        "samples": samples,
        "runs_per_hour": if wall > 0.0 { (total as f64 / wall * 3600.0) as u64 } else { 0 },
        "simulated_time": "not applicable: the runner has no timers; durations in its output are masked",
        "fault_kinds_fired": counters.iter().filter(|(k, _)| k.starts_with("fault_")).map(|(k, v)| (k.clone(), json!(v))).collect::<BTreeMap<_, _>>(),
        "fault_enumeration": if tier == Tier::Thorough { "exhaustive per base scenario: every fault kind x each of the first 4 runnable selected tests, plus cargo absent from PATH" } else { "sampled: 2 random (test, fault) pairs per base scenario, cargo absent in 1/4" },
        "counters": counters,
        "violating_findings": viols.len(),
        "violation_fingerprints": seen_fp,
        "workers": nw,
        "real_vs_stub": {
            "real": ["incan-cli test: discovery, marker extraction, filtering, harness generation (IrCodegen test mode, ProjectGenerator), verdict/summary/exit-code logic"],
            "stub": ["cargo: simulated (model of `cargo test` over the generated src/main.rs; told verdicts; faults)"]
        }
    });
    report::finish(Outcome {
        property: PROPERTY.into(),
        tier,
        seed: root,
        level: "fault_enumeration".into(),
        coverage,
        assumptions: vec![
            "the simulated cargo's model of `cargo test` (collect #[test]/#[tokio::test] functions of src/main.rs, exit 0 iff all pass, 0 tests => exit 0) agrees with real cargo".into(),
            "a test body that the harness does not contain as a test item never runs; reporting it as anything but passed is accepted as truthful".into(),
        ],
        wall_s: wall,
        violations: out_viol,
        occurrences: BTreeMap::new(),
    });
}

pub fn replay(doc: &Value, path: &str) -> ! {
    let rp = &doc["replay"];
    let scn: Scn = serde_json::from_value(rp["scenario"].clone()).unwrap_or_else(|e| simcore::harness_error(&format!("scenario: {e}")));
    let fp = rp["expect_fingerprint"].as_str().unwrap_or("").to_string();
    let scratch = simcore::lsp::scratch_root("c16-replay");
    let out = run_scn(&scn, &scratch, "r");
    let _ = std::fs::remove_dir_all(&scratch);
    println!("{}", out.stdout);
    for f in &out.findings {
        println!("finding: {} — {}", f.fingerprint, f.detail);
    }
    if out.findings.iter().any(|f| f.fingerprint == fp) {
        println!("VIOLATION property={PROPERTY} replay={path}");
        println!("REPRODUCED fingerprint={fp}");
        std::process::exit(1);
    }
    println!("NOT-REPRODUCED fingerprint={fp} (the tree no longer fails this replay)");
    std::process::exit(0);
}
