//! Engine W driver: `worldsim <C12|C14|C16|C09> [--tier ..] [--seed ..]` and `worldsim replay <file>`.

mod c09;
mod c12;
mod c14;
mod c16;
mod world;

fn main() {
    let args: Vec<String> = std::env::args().collect();
    match args.get(1).map(|s| s.as_str()) {
        Some("C12") => c12::main(&args),
        Some("C16") => c16::main(&args),
        Some("C14") => c14::main(&args),
        Some("C09") => c09::main(&args),
        Some("replay") => {
            let Some(path) = args.get(2) else { simcore::harness_error("usage: worldsim replay <file>") };
            let text = std::fs::read_to_string(path).unwrap_or_else(|e| simcore::harness_error(&format!("read {path}: {e}")));
            let doc: serde_json::Value =
                serde_json::from_str(&text).unwrap_or_else(|e| simcore::harness_error(&format!("parse {path}: {e}")));
            match doc["replay"]["check"].as_str() {
                Some("C12") => c12::replay(&doc, path),
                Some("C16") => c16::replay(&doc, path),
                Some("C14") => c14::replay(&doc, path),
                Some("C09") => c09::replay(&doc, path),
                other => simcore::harness_error(&format!("unknown check in replay file: {other:?}")),
            }
        }
        _ => simcore::harness_error("usage: worldsim C12|C14|C16|C09|replay ..."),
    }
}
