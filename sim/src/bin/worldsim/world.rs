//! Engine W — shared pieces: simulated file trees on tmpfs, snapshots, subprocess runs of the tree's own CLI under
//! the hash-seed shim, the simulated cargo on PATH, the program corpus.

use serde::{Deserialize, Serialize};
use simcore::Rng;
use std::collections::BTreeMap;
use std::io::Read;
use std::os::unix::fs::MetadataExt;
use std::path::{Path, PathBuf};
use std::process::{Command, Stdio};

#[derive(Serialize, Deserialize, Clone, Debug, PartialEq)]
pub enum Node {
    File(String),
    /// raw bytes (non-UTF-8 content), hex encoded in replay files
    Bytes(Vec<u8>),
    Dir,
    Symlink(String),
}

#[derive(Serialize, Deserialize, Clone, Debug, Default, PartialEq)]
pub struct Tree {
    pub nodes: Vec<(String, Node)>,
}

impl Tree {
    pub fn from_files(files: &[(String, String)]) -> Tree {
        Tree { nodes: files.iter().map(|(p, c)| (p.clone(), Node::File(c.clone()))).collect() }
    }
    pub fn file(&mut self, path: &str, content: &str) {
        self.nodes.push((path.to_string(), Node::File(content.to_string())));
    }
    pub fn get(&self, path: &str) -> Option<&Node> {
        self.nodes.iter().find(|(p, _)| p == path).map(|(_, n)| n)
    }
    /// Create the tree under `root`. `order` is a permutation of node indices: on tmpfs a directory lists its
    /// entries in reverse creation order, so creation order is the readdir-order seam.
    pub fn materialise(&self, root: &Path, order: Option<&[usize]>) {
        let _ = std::fs::remove_dir_all(root);
        mk(root);
        let idx: Vec<usize> = match order {
            Some(o) => o.to_vec(),
            None => (0..self.nodes.len()).collect(),
        };
        for i in idx {
            let (rel, node) = &self.nodes[i];
            let p = root.join(rel);
            if let Some(parent) = p.parent() {
                mk(parent);
            }
            let r = match node {
                Node::File(s) => std::fs::write(&p, s),
                Node::Bytes(b) => std::fs::write(&p, b),
                Node::Dir => std::fs::create_dir_all(&p),
                Node::Symlink(t) => std::os::unix::fs::symlink(t, &p),
            };
            if let Err(e) = r {
                simcore::harness_error(&format!("materialise {}: {e}", p.display()));
            }
        }
    }
    pub fn random_order(&self, rng: &mut Rng) -> Vec<usize> {
        let mut o: Vec<usize> = (0..self.nodes.len()).collect();
        rng.shuffle(&mut o);
        o
    }
}

fn mk(p: &Path) {
    if let Err(e) = std::fs::create_dir_all(p) {
        simcore::harness_error(&format!("mkdir {}: {e}", p.display()));
    }
}

#[derive(Clone, Debug, PartialEq, Eq)]
pub struct Snap {
    pub kind: char, // f d l
    pub len: u64,
    pub hash: u64,
    pub ino: u64,
    pub mtime_ns: i128,
}

/// Full snapshot of a tree: relative path -> (kind, size, content hash, inode, mtime).
pub fn snapshot(root: &Path) -> BTreeMap<String, Snap> {
    let mut out = BTreeMap::new();
    fn walk(root: &Path, dir: &Path, out: &mut BTreeMap<String, Snap>) {
        let Ok(rd) = std::fs::read_dir(dir) else { return };
        for e in rd.flatten() {
            let p = e.path();
            let rel = p.strip_prefix(root).map(|r| r.to_string_lossy().to_string()).unwrap_or_default();
            let Ok(md) = std::fs::symlink_metadata(&p) else { continue };
            let ft = md.file_type();
            let mt = md.mtime() as i128 * 1_000_000_000 + md.mtime_nsec() as i128;
            if ft.is_symlink() {
                let t = std::fs::read_link(&p).map(|t| t.to_string_lossy().to_string()).unwrap_or_default();
                out.insert(rel, Snap { kind: 'l', len: t.len() as u64, hash: simcore::fnv(t.as_bytes()), ino: md.ino(), mtime_ns: mt });
            } else if ft.is_dir() {
                out.insert(rel, Snap { kind: 'd', len: 0, hash: 0, ino: md.ino(), mtime_ns: 0 });
                walk(root, &p, out);
            } else {
                let b = std::fs::read(&p).unwrap_or_default();
                out.insert(rel, Snap { kind: 'f', len: b.len() as u64, hash: simcore::fnv(&b), ino: md.ino(), mtime_ns: mt });
            }
        }
    }
    walk(root, root, &mut out);
    out
}

/// All regular files below `root` as (relative path, bytes), sorted by path.
pub fn read_tree(root: &Path) -> BTreeMap<String, Vec<u8>> {
    let mut out = BTreeMap::new();
    fn walk(root: &Path, dir: &Path, out: &mut BTreeMap<String, Vec<u8>>) {
        let Ok(rd) = std::fs::read_dir(dir) else { return };
        for e in rd.flatten() {
            let p = e.path();
            let Ok(md) = std::fs::symlink_metadata(&p) else { continue };
            if md.is_dir() {
                walk(root, &p, out);
            } else if md.is_file() {
                let rel = p.strip_prefix(root).map(|r| r.to_string_lossy().to_string()).unwrap_or_default();
                out.insert(rel, std::fs::read(&p).unwrap_or_default());
            }
        }
    }
    walk(root, root, &mut out);
    out
}

#[derive(Clone, Debug, Default)]
pub struct ProcOut {
    pub code: Option<i32>,
    pub signal: Option<i32>,
    pub stdout: Vec<u8>,
    pub stderr: Vec<u8>,
    pub timed_out: bool,
    pub spawn_error: Option<String>,
}

impl ProcOut {
    pub fn out_str(&self) -> String {
        String::from_utf8_lossy(&self.stdout).to_string()
    }
    pub fn err_str(&self) -> String {
        String::from_utf8_lossy(&self.stderr).to_string()
    }
}

/// Run a real process with an explicit environment (nothing inherited), a working directory and a watchdog.
pub fn run_proc(exe: &Path, args: &[String], cwd: &Path, env: &[(String, String)], timeout_ms: u64) -> ProcOut {
    let mut cmd = Command::new(exe);
    cmd.args(args).current_dir(cwd).env_clear();
    for (k, v) in env {
        cmd.env(k, v);
    }
    cmd.stdin(Stdio::null()).stdout(Stdio::piped()).stderr(Stdio::piped());
    let mut child = match cmd.spawn() {
        Ok(c) => c,
        Err(e) => return ProcOut { spawn_error: Some(e.to_string()), ..Default::default() },
    };
    let mut so = child.stdout.take();
    let mut se = child.stderr.take();
    let t1 = std::thread::spawn(move || {
        let mut b = Vec::new();
        if let Some(s) = so.as_mut() {
            let _ = s.read_to_end(&mut b);
        }
        b
    });
    let t2 = std::thread::spawn(move || {
        let mut b = Vec::new();
        if let Some(s) = se.as_mut() {
            let _ = s.read_to_end(&mut b);
        }
        b
    });
    let t0 = std::time::Instant::now();
    let mut timed_out = false;
    let status = loop {
        match child.try_wait() {
            Ok(Some(st)) => break Some(st),
            Ok(None) => {
                if t0.elapsed().as_millis() as u64 > timeout_ms {
                    timed_out = true;
                    let _ = child.kill();
                    break child.wait().ok();
                }
                std::thread::sleep(std::time::Duration::from_millis(1));
            }
            Err(_) => break None,
        }
    };
    let stdout = t1.join().unwrap_or_default();
    let stderr = t2.join().unwrap_or_default();
    use std::os::unix::process::ExitStatusExt;
    ProcOut {
        code: status.and_then(|s| s.code()),
        signal: status.and_then(|s| s.signal()),
        stdout,
        stderr,
        timed_out,
        spawn_error: None,
    }
}

pub fn bin_dir() -> PathBuf {
    std::env::current_exe()
        .ok()
        .and_then(|p| p.parent().map(|d| d.to_path_buf()))
        .unwrap_or_else(|| PathBuf::from("/verif/target/release"))
}

/// The command-line compiler built from /repo's current tree.
pub fn cli_path() -> PathBuf {
    bin_dir().join("incan-cli")
}

pub fn shim_path() -> PathBuf {
    bin_dir().join("libverifshim.so")
}

/// Directory containing `cargo` -> the simulated cargo. Put first on PATH.
pub fn fakebin_dir(scratch: &Path) -> PathBuf {
    let d = scratch.join("fakebin");
    mk(&d);
    let link = d.join("cargo");
    if !link.exists() {
        if let Err(e) = std::os::unix::fs::symlink(bin_dir().join("fake-cargo"), &link) {
            simcore::harness_error(&format!("symlink fake cargo: {e}"));
        }
    }
    d
}

/// Base environment of a CLI subprocess: PATH with the simulated cargo first, the hash-seed shim, no colour switches.
pub fn cli_env(fakebin: &Path, hash_seed: Option<u64>, extra: &[(String, String)]) -> Vec<(String, String)> {
    let mut env = vec![("PATH".to_string(), format!("{}:/usr/bin:/bin", fakebin.display()))];
    if let Some(h) = hash_seed {
        env.push(("LD_PRELOAD".into(), shim_path().to_string_lossy().to_string()));
        env.push(("VERIF_HASH_SEED".into(), h.to_string()));
    }
    for (k, v) in extra {
        env.push((k.clone(), v.clone()));
    }
    env
}

#[derive(Clone, Debug)]
pub struct CorpusProgram {
    pub name: String,
    pub files: Vec<(String, String)>,
    pub entry: String,
}

/// The repository's own Incan sources as programs (single files; the two multi-file example projects as trees).
pub fn corpus() -> Vec<CorpusProgram> {
    let repo = Path::new("/repo");
    let mut out = Vec::new();
    let mut singles: Vec<PathBuf> = Vec::new();
    for d in ["examples", "tests", "benchmarks"] {
        collect(&repo.join(d), &mut singles);
    }
    singles.sort();
    let multi_roots = [repo.join("examples/advanced/multifile"), repo.join("examples/advanced/nested_project")];
    for p in &singles {
        if multi_roots.iter().any(|m| p.starts_with(m)) {
            continue;
        }
        let Ok(src) = std::fs::read_to_string(p) else { continue };
        let name = p.strip_prefix(repo).map(|r| r.to_string_lossy().to_string()).unwrap_or_default();
        let fname = p.file_name().map(|s| s.to_string_lossy().to_string()).unwrap_or_else(|| "main.incn".into());
        out.push(CorpusProgram { name, files: vec![(fname.clone(), src)], entry: fname });
    }
    for (root, entry) in [(&multi_roots[0], "main.incn"), (&multi_roots[1], "src/main.incn")] {
        let mut fs_: Vec<PathBuf> = Vec::new();
        collect(root, &mut fs_);
        fs_.sort();
        let mut files = Vec::new();
        for p in fs_ {
            if let Ok(src) = std::fs::read_to_string(&p) {
                files.push((p.strip_prefix(root).map(|r| r.to_string_lossy().to_string()).unwrap_or_default(), src));
            }
        }
        if !files.is_empty() {
            out.push(CorpusProgram {
                name: root.strip_prefix(repo).map(|r| r.to_string_lossy().to_string()).unwrap_or_default(),
                files,
                entry: entry.to_string(),
            });
        }
    }
    out
}

fn collect(dir: &Path, out: &mut Vec<PathBuf>) {
    let Ok(rd) = std::fs::read_dir(dir) else { return };
    for e in rd.flatten() {
        let p = e.path();
        if p.is_dir() {
            collect(&p, out);
        } else if p.extension().is_some_and(|x| x == "incn" || x == "incan") {
            out.push(p);
        }
    }
}
