fn main() {}
