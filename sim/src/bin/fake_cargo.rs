//! The simulated `cargo` (DESIGN.md §1.2, §3.4). Placed first on PATH as `cargo` by the world driver.
//!
//! Environment:
//!   FAKE_CARGO_JOURNAL   file to which one JSON line {cwd, argv} is appended per invocation
//!   FAKE_CARGO_SCENARIO  JSON file describing how to behave; absent => succeed silently (stub for C12/C14/C09)
//!
//! Scenario: {"mode": "model"|"told", "outcomes": {"<test fn>": "pass"|"fail"|"panic"},
//!            "faults": {"<test fn>": "build_fail"|"signal"|"garbage"|"empty_fail"|"huge"}}
//! The test being run is identified by the basename of the working directory (`target/incan_tests/<fn>`).

use std::io::Write;

fn main() {
    let args: Vec<String> = std::env::args().collect();
    let cwd = std::env::current_dir().map(|p| p.to_string_lossy().to_string()).unwrap_or_default();
    let Ok(scn_path) = std::env::var("FAKE_CARGO_SCENARIO") else {
        journal(&cwd, &args, "stub", &[], Some(0));
        std::process::exit(0);
    };
    let scn: serde_json::Value = std::fs::read_to_string(&scn_path)
        .ok()
        .and_then(|s| serde_json::from_str(&s).ok())
        .unwrap_or(serde_json::Value::Null);
    let sub = args.get(1).map(|s| s.as_str()).unwrap_or("");
    if sub != "test" {
        journal(&cwd, &args, "non-test", &[], Some(0));
        std::process::exit(0);
    }
    let test_fn = std::path::Path::new(&cwd).file_name().map(|s| s.to_string_lossy().to_string()).unwrap_or_default();
    let fault = scn["faults"][&test_fn].as_str().unwrap_or("");
    if !fault.is_empty() {
        journal(&cwd, &args, fault, &[], None);
    }
    match fault {
        "build_fail" => {
            eprintln!("   Compiling test_runner v0.1.0 ({cwd})\nerror[E0425]: cannot find value `x` in this scope\nerror: could not compile `test_runner` (bin \"test_runner\" test) due to 1 previous error");
            std::process::exit(101);
        }
        "signal" => {
            // die by signal: no exit code for the parent to read
            unsafe {
                libc::kill(libc::getpid(), libc::SIGKILL);
            }
            std::thread::sleep(std::time::Duration::from_secs(5));
            std::process::exit(0);
        }
        "garbage" => {
            let _ = std::io::stdout().write_all(&[0xff, 0xfe, 0x00, 0xc3, 0x28, b'\n', 0x80, 0x81]);
            let _ = std::io::stderr().write_all(&[0xf0, 0x28, 0x8c, 0xbc, b'\n']);
            std::process::exit(1);
        }
        "empty_fail" => std::process::exit(1),
        "ok_then_signal" => {
            // libtest reports the test as ok, then the cargo process itself is killed before it can exit
            println!("\nrunning 1 test\ntest {test_fn} ... ok\n\ntest result: ok. 1 passed; 0 failed; 0 ignored; 0 measured; 0 filtered out; finished in 0.00s\n");
            let _ = std::io::stdout().flush();
            unsafe {
                libc::kill(libc::getpid(), libc::SIGKILL);
            }
            std::thread::sleep(std::time::Duration::from_secs(5));
            std::process::exit(0);
        }
        "ok_then_exit1" => {
            // output claims success, the exit status says failure (e.g. a doctest or another target failed afterwards)
            println!("\nrunning 1 test\ntest {test_fn} ... ok\n\ntest result: ok. 1 passed; 0 failed; 0 ignored; 0 measured; 0 filtered out; finished in 0.00s\n");
            eprintln!("error: test failed, to rerun pass `--doc`");
            std::process::exit(101);
        }
        "huge" => {
            let line = "x".repeat(1000);
            let out = std::io::stdout();
            let mut o = out.lock();
            for _ in 0..2000 {
                let _ = writeln!(o, "{line}");
            }
            std::process::exit(101);
        }
        _ => {}
    }
    let mode = scn["mode"].as_str().unwrap_or("told");
    let designed = |name: &str| scn["outcomes"][name].as_str().unwrap_or("pass").to_string();
    match mode {
        "told" => finish(&cwd, &args, "told", &[(test_fn.clone(), designed(&test_fn))]),
        _ => {
            // "model": a small model of `cargo test` — collect the functions of ./src/main.rs that carry #[test] or
            // #[tokio::test] and "run" them with their designed outcomes; zero tests => exit 0, as the real tool does.
            let src = std::fs::read_to_string("src/main.rs").unwrap_or_default();
            let mut tests: Vec<(String, String)> = Vec::new();
            let lines: Vec<&str> = src.lines().collect();
            let mut i = 0;
            while i < lines.len() {
                let l = lines[i].trim();
                if l == "#[test]" || l.starts_with("#[tokio::test") {
                    let mut j = i + 1;
                    while j < lines.len() && lines[j].trim().starts_with("#[") {
                        j += 1;
                    }
                    if j < lines.len() {
                        let d = lines[j].trim();
                        if let Some(pos) = d.find("fn ") {
                            let name: String =
                                d[pos + 3..].chars().take_while(|c| c.is_alphanumeric() || *c == '_').collect();
                            if !name.is_empty() {
                                // what the body would do when run: the generated bodies are recognisable
                                // (`assert_eq(helper_x(1), 2)` passes, `..., 3)` fails, `fail(...)` panics)
                                let mut body = String::new();
                                let mut k = j + 1;
                                while k < lines.len() && !lines[k].starts_with('}') {
                                    body.push_str(lines[k]);
                                    body.push('\n');
                                    k += 1;
                                }
                                let from_body = if body.contains("fail(") {
                                    "panic"
                                } else if body.contains(", 3)") {
                                    "fail"
                                } else {
                                    "pass"
                                };
                                let o = if scn["outcomes_from_body"].as_bool().unwrap_or(false) { from_body.to_string() } else { designed(&name) };
                                tests.push((name.clone(), o));
                            }
                        }
                    }
                    i = j;
                }
                i += 1;
            }
            finish(&cwd, &args, "model", &tests)
        }
    }
}

/// One JSON line per invocation: where, how, which tests were "run" with which outcome, exit code (null = died).
fn journal(cwd: &str, args: &[String], mode: &str, ran: &[(String, String)], exit: Option<i32>) {
    if let Ok(j) = std::env::var("FAKE_CARGO_JOURNAL") {
        if let Ok(mut f) = std::fs::OpenOptions::new().create(true).append(true).open(&j) {
            let _ = writeln!(
                f,
                "{}",
                serde_json::json!({"cwd": cwd, "argv": &args[1..], "mode": mode, "ran": ran, "exit": exit})
            );
        }
    }
}

fn finish(cwd: &str, args: &[String], mode: &str, tests: &[(String, String)]) -> ! {
    let any_fail = tests.iter().any(|(_, o)| o != "pass");
    journal(cwd, args, mode, tests, Some(if any_fail { 101 } else { 0 }));
    println!("\nrunning {} test{}", tests.len(), if tests.len() == 1 { "" } else { "s" });
    let mut failed = Vec::new();
    for (name, outcome) in tests {
        match outcome.as_str() {
            "pass" => println!("test {name} ... ok"),
            "fail" => {
                eprintln!("\nthread '{name}' panicked at src/main.rs:10:5:\nassertion `left == right` failed\n  left: 1\n right: 2");
                println!("test {name} ... FAILED");
                failed.push(name.clone());
            }
            _ => {
                println!("\nthread '{name}' panicked at src/main.rs:12:9:\n  boom from {name}\n");
                println!("test {name} ... FAILED");
                failed.push(name.clone());
            }
        }
    }
    if failed.is_empty() {
        println!("\ntest result: ok. {} passed; 0 failed; 0 ignored; 0 measured; 0 filtered out; finished in 0.00s\n", tests.len());
        std::process::exit(0);
    }
    println!("\nfailures:\n");
    for f in &failed {
        println!("    {f}");
    }
    println!(
        "\ntest result: FAILED. {} passed; {} failed; 0 ignored; 0 measured; 0 filtered out; finished in 0.00s\n",
        tests.len() - failed.len(),
        failed.len()
    );
    eprintln!("error: test failed, to rerun pass `--bin test_runner`");
    std::process::exit(101);
}
