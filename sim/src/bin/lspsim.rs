//! C18 — "the language server always converges to the latest document text" (DESIGN.md §3.1).
//!
//!   lspsim c18 [--tier quick|thorough] [--seed N] [--runs N] [--workers N]
//!   lspsim replay <file>
//!   lspsim show --seed N --index I        (print one generated run, for debugging)
//!   lspsim digest [--runs N]              (determinism self-test: prints one digest line per run)

use serde::{Deserialize, Serialize};
use serde_json::{json, Value};
use simcore::lsp::{self, Settle, Sys, UNLIMITED};
use simcore::report::{self, Outcome, Violation};
use simcore::{fnv, fnv_add, mix, par, Rng, Tier};
use std::collections::{BTreeMap, BTreeSet};
use std::path::{Path, PathBuf};

const PROPERTY: &str = "C18";
const STEP_CAP_BURST: u64 = 200_000;
const STEP_CAP_IDLE: u64 = 10_000;
const DOC_LETTERS: [&str; 3] = ["a", "b", "c"];

// ------------------------------------------------------------------------------------------------ scenario

#[derive(Serialize, Deserialize, Clone, Debug, PartialEq)]
enum Ev {
    Open { doc: usize, version: i64, tag: String, text: String },
    Change {
        doc: usize,
        version: i64,
        tag: String,
        text: String,
        /// full-text changes that precede `text` inside the same notification (the last change is the new state)
        #[serde(default)]
        earlier: Vec<String>,
    },
    Close { doc: usize },
    Req { doc: usize, kind: String, line: u64, ch: u64 },
}

impl Ev {
    fn doc(&self) -> usize {
        match self {
            Ev::Open { doc, .. } | Ev::Change { doc, .. } | Ev::Close { doc } | Ev::Req { doc, .. } => *doc,
        }
    }
    fn short(&self) -> String {
        match self {
            Ev::Open { doc, version, text, .. } => {
                format!("{}:open v{}[{}imp,{}err,{}B]", DOC_LETTERS[*doc], version, count_imports(text), count_errs(text), text.len())
            }
            Ev::Change { doc, version, text, earlier, .. } => {
                format!("{}:change v{}[{}imp,{}err,{}B{}]", DOC_LETTERS[*doc], version, count_imports(text), count_errs(text), text.len(), if earlier.is_empty() { String::new() } else { format!(",+{} earlier change(s) in the same notification", earlier.len()) })
            }
            Ev::Close { doc } => format!("{}:close", DOC_LETTERS[*doc]),
            Ev::Req { doc, kind, .. } => format!("{}:{}", DOC_LETTERS[*doc], kind),
        }
    }
}

fn count_imports(t: &str) -> usize {
    t.lines().filter(|l| l.starts_with("from ") || l.starts_with("import ")).count()
}
fn count_errs(t: &str) -> usize {
    t.matches("= undefined_").count()
}

/// External events chosen by the scheduler.
#[derive(Serialize, Deserialize, Clone, Debug, PartialEq)]
enum Dec {
    /// Make input readable up to the end of the `frames`-th next frame boundary plus `permille`/1000 of the following frame.
    In { frames: u32, permille: u32 },
    /// The consumer of stdout accepts `bytes` more bytes.
    Out { bytes: u32 },
}

#[derive(Serialize, Deserialize, Clone, Debug)]
struct Scenario {
    hash_seed: u64,
    /// project files on disk (relative path, content); static during the run
    files: Vec<(String, String)>,
    /// editor documents (relative paths)
    docs: Vec<String>,
    /// which documents import another *editor* document (their diagnostics depend on that document's state)
    imports_open_doc: Vec<bool>,
    /// which documents are imported by another editor document (the server republishes a dependency view for them)
    imported_by_open_doc: Vec<bool>,
    events: Vec<Ev>,
}

#[derive(Serialize, Deserialize, Clone, Debug)]
struct Strategy {
    name: String,
    /// probability (permille) of choosing IN when both IN and OUT are enabled and the writer is blocked
    p_in_blocked: u64,
    /// probability (permille) of granting credit although the writer is not blocked
    p_pregrant: u64,
    out_max: u64,
    p_multi_frame: u64,
    p_partial: u64,
}

fn gen_strategy(rng: &mut Rng) -> Strategy {
    let (name, p_in_blocked, p_pregrant) = match rng.below(6) {
        0 => ("uniform", 500, 100),
        1 => ("stalled-editor", 900 + rng.below(90), 0),
        2 => ("burst-in", 1000, 0),
        3 => ("drain-first", 100, 300),
        4 => ("alternate", 700, 50),
        _ => ("mixed", rng.range(200, 950), rng.below(200)),
    };
    let out_max = *rng.pick(&[24u64, 300, 2000, 6000, 16384]);
    Strategy {
        name: name.to_string(),
        p_in_blocked,
        p_pregrant,
        out_max,
        p_multi_frame: *rng.pick(&[0u64, 100, 300]),
        p_partial: *rng.pick(&[0u64, 100, 300]),
    }
}

struct TextKnobs {
    max_imports: u64,
    err_menu: Vec<u64>,
    broken_permille: u64,
    truncate_permille: u64,
    rich_decls: bool,
}

fn gen_text(rng: &mut Rng, k: &TextKnobs, tag: &str, v: i64, extra_import: Option<&str>, exports: Option<&str>) -> String {
    let mut t = String::new();
    for _ in 0..rng.below(3) {
        t.push_str("# filler line\n");
    }
    let nimp = rng.below(k.max_imports + 1);
    for i in 0..nimp {
        t.push_str(&format!("from dep{i} import d{i}\n"));
    }
    if let Some(m) = extra_import {
        t.push_str(&format!("from {m} import o_fn\n"));
    }
    let broken = rng.below(1000) < k.broken_permille;
    let broken_kind = rng.below(3);
    if k.rich_decls && rng.chance(1, 2) {
        t.push_str(&format!("const K_{tag}: int = {v}\n"));
    }
    if broken && broken_kind == 0 {
        t.push_str(&format!("def f_{tag}( -> int:\n    return {v}\n"));
    } else {
        t.push_str(&format!("def f_{tag}() -> int:\n    return {v}\n"));
    }
    if let Some(name) = exports {
        t.push_str(&format!("pub def {name}() -> int:\n    return {v}\n"));
    }
    if k.rich_decls {
        match rng.below(5) {
            0 => t.push_str(&format!("model M_{tag}:\n    x: int\n")),
            1 => t.push_str(&format!("class C_{tag}:\n    y: int\n\n    def get(self) -> int:\n        return self.y\n")),
            2 => t.push_str(&format!("enum E_{tag}:\n    A\n    B\n")),
            3 => t.push_str(&format!("type N_{tag} = newtype int\n")),
            _ => {}
        }
    }
    let nerr = *rng.pick(&k.err_menu);
    if nerr > 0 {
        t.push_str(&format!("def g_{tag}() -> None:\n"));
        for i in 0..nerr {
            t.push_str(&format!("    y{i} = undefined_{tag}_{i}\n"));
        }
    }
    if broken && broken_kind == 1 {
        t.push_str(&format!("def h_{tag}() -> int:\n    return 1 $ 2\n"));
    }
    if broken && broken_kind == 2 {
        t.push_str(&format!("def h_{tag}() -> str:\n    return \"abc\n"));
    }
    if rng.below(1000) < k.truncate_permille && t.len() > 8 {
        // "typing": a prefix of the text, cut at a char boundary (all ASCII here)
        let mut cut = rng.range(1, t.len() as u64 - 1) as usize;
        // never cut through an attribution tag: a prefix of `a_s2_v30` reads as the tag of another version (`a_s2_v3`)
        let b = t.as_bytes();
        let is_id = |c: u8| c.is_ascii_alphanumeric() || c == b'_';
        let mut start = cut;
        while start > 0 && is_id(b[start - 1]) {
            start -= 1;
        }
        let mut end = cut;
        while end < b.len() && is_id(b[end]) {
            end += 1;
        }
        if end > cut && t[start..end].contains(tag) {
            cut = start;
        }
        t.truncate(cut.max(1));
    }
    t
}

fn gen_scenario(seed: u64) -> (Scenario, Strategy) {
    let mut rng = Rng::new(seed);
    let hash_seed = rng.next();
    let strategy = gen_strategy(&mut rng.fork("strategy"));
    let mut r = rng.fork("workload");
    let ndocs = match r.below(10) {
        0..=5 => 1,
        6..=8 => 2,
        _ => 3,
    };
    let knobs = TextKnobs {
        max_imports: *r.pick(&[0u64, 1, 2, 3, 4, 4]),
        err_menu: match r.below(4) {
            0 => vec![0, 1],
            1 => vec![0, 1, 5, 40],
            2 => vec![0, 1, 40, 90],
            _ => vec![0, 5, 40, 90, 120],
        },
        broken_permille: *r.pick(&[0u64, 0, 120, 250]),
        truncate_permille: *r.pick(&[0u64, 0, 0, 100]),
        rich_decls: r.chance(1, 2),
    };
    let undo_permille = *r.pick(&[0u64, 0, 150, 300]);
    let multi_change = r.chance(1, 3);
    // the third document has the same file name as the first, in another directory (state must be keyed by the whole URI)
    let docs: Vec<String> = ["main.incn", "other.incn", "pkg/main.incn"][..ndocs].iter().map(|s| s.to_string()).collect();
    let main_imports_other = ndocs >= 2 && r.chance(1, 2);
    let mut files: Vec<(String, String)> = Vec::new();
    for i in 0..4 {
        files.push((format!("dep{i}.incn"), format!("pub def d{i}() -> int:\n    return {i}\n")));
    }
    // a nested dependency chain for dep3 (more await points in one handler)
    files[3].1 = "from dep2 import d2\npub def d3() -> int:\n    return d2()\n".to_string();
    if ndocs >= 2 {
        files.push(("other.incn".into(), "pub def o_fn() -> int:\n    return 0\n".into()));
    }
    if ndocs >= 3 {
        for i in 0..3 {
            files.push((format!("pkg/dep{i}.incn"), format!("pub def d{i}() -> int:\n    return {}\n", 10 + i)));
        }
        files.push(("pkg/dep3.incn".into(), "from dep2 import d2\npub def d3() -> int:\n    return d2()\n".into()));
    }
    // per-document histories
    let mut per_doc: Vec<Vec<Ev>> = Vec::new();
    for d in 0..ndocs {
        let mut evs = Vec::new();
        let sessions = if r.chance(1, 3) { 2 } else { 1 };
        for s in 1..=sessions {
            let nver = match r.below(8) {
                0..=2 => 2,
                3..=4 => 3,
                5 => 4,
                6 => 6,
                _ => 8,
            };
            // versions: usually 1..n, sometimes continuing from an offset, always increasing inside a session
            let base = if r.chance(1, 5) { r.range(2, 40) as i64 } else { 1 };
            let mut session_texts: Vec<(String, String)> = Vec::new();
            for i in 0..nver {
                let v = base + i;
                let extra = if d == 0 && main_imports_other { Some("other") } else { None };
                let exports = if d == 1 { Some("o_fn") } else { None };
                // "undo" / no-op save: the new version carries exactly the text of an earlier version of this session
                // (same text => same attribution tag; only the version number is new)
                let (tag, text) = if i >= 1 && undo_permille > 0 && r.below(1000) < undo_permille {
                    let back = if i >= 2 && r.chance(2, 3) { session_texts.len() - 2 } else { session_texts.len() - 1 };
                    session_texts[back].clone()
                } else {
                    let tag = format!("{}_s{}_v{}", DOC_LETTERS[d], s, v);
                    let text = gen_text(&mut r, &knobs, &tag, v, extra, exports);
                    (tag, text)
                };
                session_texts.push((tag.clone(), text.clone()));
                if i == 0 {
                    evs.push(Ev::Open { doc: d, version: v, tag, text });
                } else {
                    // sometimes the notification carries the previous text as a first change and the new text as the last
                    let earlier = if multi_change && r.chance(1, 5) { vec![session_texts[session_texts.len() - 2].1.clone()] } else { Vec::new() };
                    evs.push(Ev::Change { doc: d, version: v, tag, text, earlier });
                }
                if r.chance(1, 12) {
                    let kind = *r.pick(&["hover", "completion", "definition"]);
                    evs.push(Ev::Req { doc: d, kind: kind.to_string(), line: r.below(6), ch: r.below(8) });
                }
            }
            if s < sessions || r.chance(1, 3) {
                evs.push(Ev::Close { doc: d });
            }
        }
        per_doc.push(evs);
    }
    // random merge preserving per-document order
    let mut idx = vec![0usize; ndocs];
    let mut events = Vec::new();
    loop {
        let live: Vec<usize> = (0..ndocs).filter(|d| idx[*d] < per_doc[*d].len()).collect();
        if live.is_empty() {
            break;
        }
        let d = *r.pick(&live);
        // keep runs of the same document together most of the time (bursts of typing)
        let burst = 1 + r.below(3) as usize;
        for _ in 0..burst {
            if idx[d] < per_doc[d].len() {
                events.push(per_doc[d][idx[d]].clone());
                idx[d] += 1;
            }
        }
    }
    let mut imports_open_doc = vec![false; ndocs];
    let mut imported_by_open_doc = vec![false; ndocs];
    if main_imports_other {
        imports_open_doc[0] = true;
        imported_by_open_doc[1] = true;
    }
    (Scenario { hash_seed, files, docs, imports_open_doc, imported_by_open_doc, events }, strategy)
}

// ------------------------------------------------------------------------------------------------ model (spec)

#[derive(Clone, Debug, PartialEq)]
enum DocFinal {
    NeverOpened,
    Closed,
    Open { version: i64, tag: String, text: String },
}

/// The trivial reference model: uri -> (latest version sent since last open, its text) | closed.
fn final_state(scn: &Scenario) -> Vec<DocFinal> {
    let mut st = vec![DocFinal::NeverOpened; scn.docs.len()];
    for e in &scn.events {
        match e {
            Ev::Open { doc, version, tag, text } | Ev::Change { doc, version, tag, text, .. } => {
                st[*doc] = DocFinal::Open { version: *version, tag: tag.clone(), text: text.clone() };
            }
            Ev::Close { doc } => st[*doc] = DocFinal::Closed,
            Ev::Req { .. } => {}
        }
    }
    st
}

/// Keep a history well-formed after events were dropped by the minimiser.
fn normalise(events: &[Ev], ndocs: usize) -> Vec<Ev> {
    let mut open = vec![false; ndocs];
    let mut out = Vec::new();
    for e in events {
        match e.clone() {
            Ev::Open { doc, version, tag, text } | Ev::Change { doc, version, tag, text, .. } => {
                if open[doc] {
                    out.push(Ev::Change { doc, version, tag, text, earlier: Vec::new() });
                } else {
                    open[doc] = true;
                    out.push(Ev::Open { doc, version, tag, text });
                }
            }
            Ev::Close { doc } => {
                if open[doc] {
                    open[doc] = false;
                    out.push(Ev::Close { doc });
                }
            }
            r @ Ev::Req { .. } => out.push(r),
        }
    }
    out
}

#[derive(Clone, Debug)]
struct Probe {
    doc: usize,
    kind: &'static str,
    line: u64,
    ch: u64,
}

fn probe_plan(scn: &Scenario, fin: &[DocFinal]) -> Vec<Probe> {
    let mut plan = Vec::new();
    for (d, f) in fin.iter().enumerate() {
        let _ = scn;
        match f {
            DocFinal::Open { text, .. } => {
                let mut n = 0;
                for (i, l) in text.lines().enumerate() {
                    let is_decl = ["const ", "def ", "pub def ", "model ", "class ", "enum ", "type ", "trait "]
                        .iter()
                        .any(|k| l.starts_with(k));
                    if is_decl && n < 6 {
                        n += 1;
                        plan.push(Probe { doc: d, kind: "hover", line: i as u64, ch: 1 });
                        plan.push(Probe { doc: d, kind: "definition", line: i as u64, ch: 1 });
                    }
                }
                for i in [0u64, 2, 5] {
                    plan.push(Probe { doc: d, kind: "hover", line: i, ch: 0 });
                }
                plan.push(Probe { doc: d, kind: "completion", line: 0, ch: 0 });
            }
            DocFinal::Closed | DocFinal::NeverOpened => {
                for i in [0u64, 1, 2, 3, 5] {
                    plan.push(Probe { doc: d, kind: "hover", line: i, ch: 1 });
                }
                plan.push(Probe { doc: d, kind: "definition", line: 1, ch: 1 });
                plan.push(Probe { doc: d, kind: "completion", line: 0, ch: 0 });
            }
        }
    }
    plan
}

// ------------------------------------------------------------------------------------------------ execution

trait Chooser {
    /// `in_left`: unreleased input remains; `blocked`: the stdout writer is stalled.
    fn choose(&mut self, in_left: bool, blocked: bool) -> Dec;
}

struct RandomChooser {
    rng: Rng,
    st: Strategy,
}

impl Chooser for RandomChooser {
    fn choose(&mut self, in_left: bool, blocked: bool) -> Dec {
        let want_in = if in_left && blocked {
            self.rng.below(1000) < self.st.p_in_blocked
        } else if in_left {
            !(self.rng.below(1000) < self.st.p_pregrant)
        } else {
            false
        };
        if want_in {
            let frames = if self.rng.below(1000) < self.st.p_multi_frame { self.rng.range(2, 5) as u32 } else { 1 };
            if self.rng.below(1000) < self.st.p_partial {
                Dec::In { frames: frames - 1, permille: self.rng.range(1, 999) as u32 }
            } else {
                Dec::In { frames, permille: 0 }
            }
        } else {
            Dec::Out { bytes: self.rng.range(1, self.st.out_max) as u32 }
        }
    }
}

struct ReplayChooser {
    decs: Vec<Dec>,
    pos: usize,
}

impl Chooser for ReplayChooser {
    fn choose(&mut self, in_left: bool, _blocked: bool) -> Dec {
        while self.pos < self.decs.len() {
            let d = self.decs[self.pos].clone();
            self.pos += 1;
            match d {
                Dec::In { .. } if !in_left => continue, // not enabled any more (events were dropped): skip
                _ => return d,
            }
        }
        // trace exhausted: deterministic default — deliver everything, then drain
        if in_left {
            Dec::In { frames: u32::MAX, permille: 0 }
        } else {
            Dec::Out { bytes: u32::MAX }
        }
    }
}

#[derive(Default, Clone, Debug)]
struct Reach {
    in_while_blocked: u64,
    stalls: u64,
    short_reads: u64,
    short_writes: u64,
    partial_frames: u64,
    multi_frame: u64,
    decisions: u64,
    steps: u64,
}

struct RunOut {
    decisions: Vec<Dec>,
    frames: Vec<Value>,
    /// probe answers aligned with the plan (None = unanswered)
    answers: Vec<Option<Value>>,
    /// mid-burst requests left unanswered
    unanswered_reqs: u64,
    dead: Option<String>,
    stuck: Option<String>,
    reach: Reach,
}

fn uri_of(dir: &Path, rel: &str) -> String {
    format!("file://{}/{}", dir.display(), rel)
}

fn write_project(dir: &Path, scn: &Scenario) {
    let _ = std::fs::remove_dir_all(dir);
    if let Err(e) = std::fs::create_dir_all(dir) {
        simcore::harness_error(&format!("mkdir {}: {e}", dir.display()));
    }
    for (rel, content) in &scn.files {
        let p = dir.join(rel);
        if let Some(parent) = p.parent() {
            let _ = std::fs::create_dir_all(parent);
        }
        if let Err(e) = std::fs::write(&p, content) {
            simcore::harness_error(&format!("write {}: {e}", p.display()));
        }
    }
}

fn ev_message(dir: &Path, scn: &Scenario, e: &Ev, req_id: i64) -> Value {
    match e {
        Ev::Open { doc, version, text, .. } => lsp::did_open(&uri_of(dir, &scn.docs[*doc]), *version, text),
        Ev::Change { doc, version, text, earlier, .. } if !earlier.is_empty() => {
            let mut all: Vec<&str> = earlier.iter().map(|s| s.as_str()).collect();
            all.push(text);
            lsp::did_change_multi(&uri_of(dir, &scn.docs[*doc]), *version, &all)
        }
        Ev::Change { doc, version, text, .. } => lsp::did_change(&uri_of(dir, &scn.docs[*doc]), *version, text),
        Ev::Close { doc } => lsp::did_close(&uri_of(dir, &scn.docs[*doc])),
        Ev::Req { doc, kind, line, ch } => probe_message(dir, scn, &Probe { doc: *doc, kind: kind_static(kind), line: *line, ch: *ch }, req_id),
    }
}

fn kind_static(k: &str) -> &'static str {
    match k {
        "hover" => "hover",
        "definition" => "definition",
        _ => "completion",
    }
}

fn probe_message(dir: &Path, scn: &Scenario, p: &Probe, id: i64) -> Value {
    let uri = uri_of(dir, &scn.docs[p.doc]);
    match p.kind {
        "hover" => lsp::hover(id, &uri, p.line, p.ch),
        "definition" => lsp::definition(id, &uri, p.line, p.ch),
        _ => lsp::completion(id, &uri, p.line, p.ch),
    }
}

/// Run the concurrent, fault-injected execution. The project tree must already be on disk.
fn execute(scn: &Scenario, chooser: &mut dyn Chooser, dir: &Path, plan: &[Probe]) -> RunOut {
    let mut sys = Sys::new(None);
    let mut out = RunOut {
        decisions: Vec::new(),
        frames: Vec::new(),
        answers: vec![None; plan.len()],
        unanswered_reqs: 0,
        dead: None,
        stuck: None,
        reach: Reach::default(),
    };
    if let Err(e) = sys.handshake() {
        out.dead = Some(e);
        return out;
    }
    // ---- burst: all client messages are queued; the scheduler decides when they become readable
    let mut frame_ends: Vec<usize> = Vec::new();
    let mut total = 0usize;
    let mut req_ids: Vec<i64> = Vec::new();
    for (i, e) in scn.events.iter().enumerate() {
        let id = 5000 + i as i64;
        if matches!(e, Ev::Req { .. }) {
            req_ids.push(id);
        }
        let bytes = lsp::frame(&ev_message(dir, scn, e, id));
        total += bytes.len();
        frame_ends.push(total);
        sys.push_input(&bytes);
    }
    let mut guard = 0u64;
    loop {
        match sys.settle(STEP_CAP_BURST) {
            Settle::Quiescent => {}
            Settle::Dead(d) => {
                out.dead = Some(d);
                break;
            }
            Settle::OutOfSteps => {
                out.stuck = Some("serve() kept waking itself during the burst (step cap)".into());
                break;
            }
        }
        let in_left = sys.unreleased_in() > 0;
        let blocked = sys.out_blocked();
        if !in_left && !blocked {
            break;
        }
        guard += 1;
        if guard > 100_000 {
            simcore::harness_error("burst loop exceeded 100000 decisions");
        }
        let d = chooser.choose(in_left, blocked);
        match &d {
            Dec::In { frames, permille } => {
                let released = total - sys.unreleased_in();
                // index of the first frame boundary strictly after `released`
                let first = frame_ends.partition_point(|e| *e <= released);
                let mut target = released;
                if *frames > 0 {
                    let k = (first + (*frames as usize).min(frame_ends.len()) - 1).min(frame_ends.len() - 1);
                    target = frame_ends[k];
                }
                if *permille > 0 {
                    let nb = frame_ends.partition_point(|e| *e <= target);
                    if nb < frame_ends.len() {
                        let start = target;
                        let len = frame_ends[nb] - start;
                        target = start + (len * (*permille as usize) / 1000).max(1);
                        out.reach.partial_frames += 1;
                    }
                }
                if *frames > 1 {
                    out.reach.multi_frame += 1;
                }
                let n = target.saturating_sub(released).max(1);
                if blocked {
                    out.reach.in_while_blocked += 1;
                }
                sys.release_in(n);
            }
            Dec::Out { bytes } => {
                let n = if *bytes == u32::MAX { UNLIMITED } else { *bytes as usize };
                sys.grant_out(n);
            }
        }
        out.decisions.push(d);
    }
    out.reach.decisions = out.decisions.len() as u64;
    // ---- faults stop: unlimited credit, run to idle
    if out.dead.is_none() && out.stuck.is_none() {
        sys.grant_out(UNLIMITED);
        match sys.settle(STEP_CAP_IDLE) {
            Settle::Quiescent => {}
            Settle::Dead(d) => out.dead = Some(d),
            Settle::OutOfSteps => out.stuck = Some(format!("not idle within {STEP_CAP_IDLE} steps after faults stopped")),
        }
    }
    out.frames.extend(sys.drain_frames());
    // ---- probes
    if out.dead.is_none() && out.stuck.is_none() {
        for (i, p) in plan.iter().enumerate() {
            let m = probe_message(dir, scn, p, 9000 + i as i64);
            sys.push_input(&lsp::frame(&m));
        }
        let n = sys.unreleased_in();
        sys.release_in(n);
        match sys.settle(STEP_CAP_IDLE) {
            Settle::Quiescent => {}
            Settle::Dead(d) => out.dead = Some(d),
            Settle::OutOfSteps => out.stuck = Some(format!("probes not answered within {STEP_CAP_IDLE} steps")),
        }
        let frames = sys.drain_frames();
        for f in &frames {
            if let Some(id) = f["id"].as_i64() {
                if id >= 9000 && ((id - 9000) as usize) < plan.len() && f.get("method").is_none() {
                    out.answers[(id - 9000) as usize] = Some(f.get("result").cloned().unwrap_or(json!({"error": f["error"]})));
                }
            }
        }
        out.frames.extend(frames);
    }
    let answered: BTreeSet<i64> =
        out.frames.iter().filter(|f| f.get("method").is_none()).filter_map(|f| f["id"].as_i64()).collect();
    out.unanswered_reqs = req_ids.iter().filter(|id| !answered.contains(id)).count() as u64;
    {
        let pi = sys.pin.borrow();
        let po = sys.pout.borrow();
        out.reach.stalls = po.stalls;
        out.reach.short_writes = po.short_writes;
        out.reach.short_reads = pi.short_reads;
    }
    out.reach.steps = sys.steps;
    out
}

/// What a fresh, sequential server (concurrency 1, no faults) that only ever saw the final state answers.
struct Reference {
    answers: Vec<Option<Value>>,
    /// per doc: diagnostics published right after its own didOpen (multiset as sorted strings)
    own_diags: Vec<Option<Vec<String>>>,
    /// per doc: does the latest text lex and parse (decided by the real server: a parseable text gets completions with its symbols)
    error: Option<String>,
}

fn diag_multiset(d: &Value) -> Vec<String> {
    let mut v: Vec<String> = d.as_array().map(|a| a.iter().map(|x| x.to_string()).collect()).unwrap_or_default();
    v.sort();
    v
}

fn reference(scn: &Scenario, fin: &[DocFinal], dir: &Path, plan: &[Probe]) -> Reference {
    let mut r = Reference { answers: vec![None; plan.len()], own_diags: vec![None; fin.len()], error: None };
    let mut sys = Sys::new(Some(1));
    if let Err(e) = sys.handshake() {
        r.error = Some(e);
        return r;
    }
    // imported documents first, so that a document importing them sees their final text
    let mut order: Vec<usize> = (0..fin.len()).collect();
    order.sort_by_key(|d| (scn.imports_open_doc[*d], *d));
    for d in order {
        if let DocFinal::Open { version, text, .. } = &fin[d] {
            let uri = uri_of(dir, &scn.docs[d]);
            match sys.deliver_now(&lsp::did_open(&uri, *version, text), STEP_CAP_IDLE) {
                Settle::Quiescent => {}
                other => {
                    r.error = Some(format!("reference run: {other:?}"));
                    return r;
                }
            }
            for f in sys.drain_frames() {
                if f["method"] == "textDocument/publishDiagnostics" && f["params"]["uri"] == uri.as_str() {
                    r.own_diags[d] = Some(diag_multiset(&f["params"]["diagnostics"]));
                }
            }
        }
    }
    for (i, p) in plan.iter().enumerate() {
        let m = probe_message(dir, scn, p, 9000 + i as i64);
        match sys.deliver_now(&m, STEP_CAP_IDLE) {
            Settle::Quiescent => {}
            other => {
                r.error = Some(format!("reference probes: {other:?}"));
                return r;
            }
        }
        for f in sys.drain_frames() {
            if f["id"].as_i64() == Some(9000 + i as i64) && f.get("method").is_none() {
                r.answers[i] = Some(f.get("result").cloned().unwrap_or(json!({"error": f["error"]})));
            }
        }
    }
    r
}

// ------------------------------------------------------------------------------------------------ oracles

#[derive(Clone, Debug, PartialEq)]
struct Finding {
    class: String,
    doc: Option<usize>,
    detail: String,
}

/// Extract attribution tags (`a_s1_v3`) from any text: `<letter>_s<digits>_v<digits>` preceded by `_`.
fn tags_in(s: &str) -> BTreeSet<String> {
    let b = s.as_bytes();
    let mut out = BTreeSet::new();
    let mut i = 0;
    while i + 6 < b.len() {
        if b[i] == b'_' && (b[i + 1] == b'a' || b[i + 1] == b'b' || b[i + 1] == b'c') && b[i + 2] == b'_' && b[i + 3] == b's' {
            let mut j = i + 4;
            let d1 = j;
            while j < b.len() && b[j].is_ascii_digit() {
                j += 1;
            }
            if j > d1 && j + 1 < b.len() && b[j] == b'_' && b[j + 1] == b'v' {
                let mut k = j + 2;
                let d2 = k;
                while k < b.len() && b[k].is_ascii_digit() {
                    k += 1;
                }
                if k > d2 {
                    out.insert(s[i + 1..k].to_string());
                    i = k;
                    continue;
                }
            }
        }
        i += 1;
    }
    out
}

fn judge(scn: &Scenario, fin: &[DocFinal], plan: &[Probe], run: &RunOut, rf: &Reference, dir: &Path) -> Vec<Finding> {
    let mut f = Vec::new();
    if let Some(d) = &run.dead {
        f.push(Finding { class: "crash".into(), doc: None, detail: d.clone() });
        return f;
    }
    if let Some(s) = &run.stuck {
        f.push(Finding { class: "no-convergence".into(), doc: None, detail: s.clone() });
        return f;
    }
    if let Some(e) = &rf.error {
        // the sequential reference itself crashed: the server cannot even handle the final state alone
        f.push(Finding { class: "crash".into(), doc: None, detail: format!("sequential reference server: {e}") });
        return f;
    }
    let unanswered = run.answers.iter().filter(|a| a.is_none()).count();
    if unanswered > 0 || run.unanswered_reqs > 0 {
        f.push(Finding {
            class: "no-convergence".into(),
            doc: None,
            detail: format!("{} probe(s) and {} mid-burst request(s) never answered although the server is idle", unanswered, run.unanswered_reqs),
        });
        return f;
    }
    for (d, st) in fin.iter().enumerate() {
        let letter = DOC_LETTERS[d];
        let idxs: Vec<usize> = (0..plan.len()).filter(|i| plan[*i].doc == d).collect();
        let got: Vec<&Value> = idxs.iter().map(|i| run.answers[*i].as_ref().unwrap_or(&Value::Null)).collect();
        let exp: Vec<&Value> = idxs.iter().map(|i| rf.answers[*i].as_ref().unwrap_or(&Value::Null)).collect();
        let got_s = got.iter().map(|v| v.to_string()).collect::<Vec<_>>().join("\n");
        match st {
            DocFinal::NeverOpened => {}
            DocFinal::Closed => {
                if got.iter().any(|v| !v.is_null()) {
                    let tags: Vec<String> = tags_in(&got_s).into_iter().collect();
                    f.push(Finding {
                        class: "resurrected-after-close".into(),
                        doc: Some(d),
                        detail: format!("document {letter} was closed last, yet the idle server answers with content (from {:?})", tags),
                    });
                }
            }
            DocFinal::Open { version, tag, .. } => {
                let found = tags_in(&got_s);
                let ref_s = exp.iter().map(|v| v.to_string()).collect::<Vec<_>>().join("\n");
                // decided by the real front end (a truncated text may parse and still carry no attribution tag)
                let text_parses = match &fin[d] {
                    DocFinal::Open { text, .. } => incan::lexer::lex(text).ok().and_then(|t| incan::parser::parse(&t).ok()).is_some(),
                    _ => false,
                };
                let latest_parses = text_parses;
                let tag_visible = tags_in(&ref_s).contains(tag);
                let stale: Vec<&String> = found.iter().filter(|t| *t != tag).collect();
                if !stale.is_empty() {
                    let class = if latest_parses { "stale-overwrite" } else { "stale-after-unparsable" };
                    f.push(Finding {
                        class: class.into(),
                        doc: Some(d),
                        detail: format!("document {letter}: latest sent is {tag} (v{version}, parses={latest_parses}) but the idle server answers from {:?}", stale),
                    });
                } else if tag_visible && !found.contains(tag) {
                    f.push(Finding {
                        class: "latest-not-served".into(),
                        doc: Some(d),
                        detail: format!("document {letter}: latest sent is {tag}; the idle server's answers do not contain it (answers: {})", trunc(&got_s, 160)),
                    });
                } else if got_s != ref_s {
                    let k = (0..got.len()).find(|k| got[*k] != exp[*k]).unwrap_or(0);
                    f.push(Finding {
                        class: "mixed-state".into(),
                        doc: Some(d),
                        detail: format!(
                            "document {letter} ({tag}): answer to {} at {}:{} differs from a fresh server given only the latest text: got {} expected {}",
                            plan[idxs[k]].kind,
                            plan[idxs[k]].line,
                            plan[idxs[k]].ch,
                            trunc(&got[k].to_string(), 200),
                            trunc(&exp[k].to_string(), 200)
                        ),
                    });
                }
                // ---- diagnostics of the latest version
                let uri = uri_of(dir, &scn.docs[d]);
                let pubs: Vec<&Value> = run
                    .frames
                    .iter()
                    .filter(|fr| fr["method"] == "textDocument/publishDiagnostics" && fr["params"]["uri"] == uri.as_str())
                    .filter(|fr| fr["params"]["version"].as_i64() == Some(*version))
                    .collect();
                match pubs.last() {
                    None => f.push(Finding {
                        class: "diag-missing".into(),
                        doc: Some(d),
                        detail: format!("document {letter}: no diagnostics were ever published for the latest version v{version} ({tag})"),
                    }),
                    Some(last) => {
                        let ds = last["params"]["diagnostics"].to_string();
                        let foreign: Vec<String> = tags_in(&ds).into_iter().filter(|t| t != tag).collect();
                        let got_ms = diag_multiset(&last["params"]["diagnostics"]);
                        if !foreign.is_empty() {
                            f.push(Finding {
                                class: "diag-wrong-text".into(),
                                doc: Some(d),
                                detail: format!("document {letter}: last diagnostics published for v{version} ({tag}) were computed from {:?}", foreign),
                            });
                        } else if !scn.imports_open_doc[d] {
                            let own = rf.own_diags[d].clone().unwrap_or_default();
                            let dep_view_ok = scn.imported_by_open_doc[d] && latest_parses && got_ms.is_empty();
                            if got_ms != own && !dep_view_ok {
                                f.push(Finding {
                                    class: "diag-mismatch".into(),
                                    doc: Some(d),
                                    detail: format!(
                                        "document {letter}: last diagnostics for v{version} ({tag}) = {} item(s), a fresh analysis of that text gives {} item(s)",
                                        got_ms.len(),
                                        own.len()
                                    ),
                                });
                            }
                        }
                    }
                }
            }
        }
    }
    f
}

fn trunc(s: &str, n: usize) -> String {
    if s.len() <= n {
        s.to_string()
    } else {
        let mut e = n;
        while !s.is_char_boundary(e) {
            e -= 1;
        }
        format!("{}…", &s[..e])
    }
}

// ------------------------------------------------------------------------------------------------ one run

struct RunReport {
    findings: Vec<Finding>,
    decisions: Vec<Dec>,
    reach: Reach,
    interleaving_fp: u64,
    publish_out_of_order: bool,
    summary: Value,
}

/// Execute + reference + judge, inside a fresh simulated process instance. Pure function of (scenario, decisions/strategy).
fn run_once(scn: Scenario, mode: RunMode, dir: PathBuf) -> Result<RunReport, String> {
    let hash_seed = scn.hash_seed;
    par::instance_timeout(hash_seed, None, std::time::Duration::from_secs(60), move || {
        write_project(&dir, &scn);
        let fin = final_state(&scn);
        let plan = probe_plan(&scn, &fin);
        let run = match mode {
            RunMode::Random(seed, st) => {
                let mut c = RandomChooser { rng: Rng::new(mix(seed, "schedule", 0)), st };
                execute(&scn, &mut c, &dir, &plan)
            }
            RunMode::Replay(decs) => {
                let mut c = ReplayChooser { decs, pos: 0 };
                execute(&scn, &mut c, &dir, &plan)
            }
        };
        let rf = reference(&scn, &fin, &dir, &plan);
        let findings = judge(&scn, &fin, &plan, &run, &rf, &dir);
        // interleaving fingerprint: the pipe-event sequence and the sequence of server outputs
        let mut h = fnv(b"ilv");
        for d in &run.decisions {
            match d {
                Dec::In { frames, permille } => h = fnv_add(h, format!("I{frames}.{permille}").as_bytes()),
                Dec::Out { bytes } => h = fnv_add(h, format!("O{bytes}").as_bytes()),
            }
        }
        let mut order = Vec::new();
        let mut ooo = false;
        let mut lastv: BTreeMap<String, i64> = BTreeMap::new();
        for fr in &run.frames {
            if fr["method"] == "textDocument/publishDiagnostics" {
                let u = fr["params"]["uri"].as_str().unwrap_or("").rsplit('/').next().unwrap_or("").to_string();
                let v = fr["params"]["version"].as_i64().unwrap_or(-1);
                let n = fr["params"]["diagnostics"].as_array().map(|a| a.len()).unwrap_or(0);
                if v >= 0 {
                    if let Some(p) = lastv.get(&u) {
                        if v < *p {
                            ooo = true;
                        }
                    }
                    lastv.insert(u.clone(), v);
                }
                h = fnv_add(h, format!("P{u}.{v}.{n}").as_bytes());
                order.push(format!("{u}@{v}#{n}"));
            } else if let Some(id) = fr["id"].as_i64() {
                h = fnv_add(h, format!("R{id}").as_bytes());
            }
        }
        let summary = json!({
            "events": scn.events.iter().map(|e| e.short()).collect::<Vec<_>>(),
            "pipe_events": run.decisions.len(),
            "publishes": order,
            "findings": findings.iter().map(|x| format!("{}: {}", x.class, x.detail)).collect::<Vec<_>>(),
        });
        RunReport { findings, decisions: run.decisions, reach: run.reach, interleaving_fp: h, publish_out_of_order: ooo, summary }
    })
}

#[derive(Clone)]
enum RunMode {
    Random(u64, Strategy),
    Replay(Vec<Dec>),
}

// ------------------------------------------------------------------------------------------------ minimisation

fn has_class(r: &Result<RunReport, String>, class: &str) -> bool {
    match r {
        Ok(rep) => rep.findings.iter().any(|f| f.class == class),
        Err(e) if par::is_watchdog(e) => class == "no-convergence",
        Err(_) => class == "crash",
    }
}

/// Lighter variants of one text, most aggressive first.
fn lighter_texts(t: &str) -> Vec<String> {
    let lines: Vec<&str> = t.lines().collect();
    let mut out = Vec::new();
    let keep = |pred: &dyn Fn(&str) -> bool| -> String {
        let mut s = lines.iter().filter(|l| pred(l)).cloned().collect::<Vec<_>>().join("\n");
        s.push('\n');
        s
    };
    // no filler, no error lines, no imports
    out.push(keep(&|l| !l.starts_with("# filler") && !l.contains("= undefined_") && !l.starts_with("def g_") && !l.starts_with("from dep")));
    out.push(keep(&|l| !l.contains("= undefined_") && !l.starts_with("def g_")));
    out.push(keep(&|l| !l.starts_with("from dep")));
    out.push(keep(&|l| !l.starts_with("# filler")));
    // halve the error lines
    let nerr = lines.iter().filter(|l| l.contains("= undefined_")).count();
    if nerr > 1 {
        let mut seen = 0;
        let mut s = String::new();
        for l in &lines {
            if l.contains("= undefined_") {
                seen += 1;
                if seen > nerr / 2 {
                    continue;
                }
            }
            s.push_str(l);
            s.push('\n');
        }
        out.push(s);
    }
    // drop one import at a time (the last one)
    if let Some(pos) = lines.iter().rposition(|l| l.starts_with("from dep")) {
        let mut s = String::new();
        for (i, l) in lines.iter().enumerate() {
            if i != pos {
                s.push_str(l);
                s.push('\n');
            }
        }
        out.push(s);
    }
    out.retain(|x| x != t && x.trim().len() > 0);
    out.dedup();
    out
}

fn minimise(mut scn: Scenario, mut decs: Vec<Dec>, class: &str, dir: &Path, budget: &mut u32) -> (Scenario, Vec<Dec>) {
    let ndocs = scn.docs.len();
    let mut try_candidate = |s: &Scenario, d: &Vec<Dec>, budget: &mut u32| -> bool {
        if *budget == 0 {
            return false;
        }
        *budget -= 1;
        has_class(&run_once(s.clone(), RunMode::Replay(d.clone()), dir.to_path_buf()), class)
    };
    let mut progress = true;
    while progress && *budget > 0 {
        progress = false;
        // 1. drop all events of one document
        for d in 0..ndocs {
            if scn.events.iter().any(|e| e.doc() == d) && scn.events.iter().any(|e| e.doc() != d) {
                let mut c = scn.clone();
                c.events = normalise(&scn.events.iter().filter(|e| e.doc() != d).cloned().collect::<Vec<_>>(), ndocs);
                if try_candidate(&c, &decs, budget) {
                    scn = c;
                    progress = true;
                }
            }
        }
        // 2. drop single events, last to first
        let mut i = scn.events.len();
        while i > 0 {
            i -= 1;
            if scn.events.len() <= 1 {
                break;
            }
            let mut c = scn.clone();
            let mut evs = scn.events.clone();
            evs.remove(i);
            c.events = normalise(&evs, ndocs);
            if c.events.len() < scn.events.len() && try_candidate(&c, &decs, budget) {
                scn = c;
                progress = true;
                i = i.min(scn.events.len());
            }
        }
        // 3. drop decisions, last to first; then try the empty trace (pure default schedule)
        if !decs.is_empty() {
            let empty: Vec<Dec> = Vec::new();
            if try_candidate(&scn, &empty, budget) {
                decs = empty;
                progress = true;
            }
        }
        let mut j = decs.len();
        while j > 0 {
            j -= 1;
            let mut c = decs.clone();
            c.remove(j);
            if try_candidate(&scn, &c, budget) {
                decs = c;
                progress = true;
            }
        }
        // 4. lighter texts
        for i in 0..scn.events.len() {
            let cur = match &scn.events[i] {
                Ev::Open { text, .. } | Ev::Change { text, .. } => text.clone(),
                _ => continue,
            };
            for cand in lighter_texts(&cur) {
                let mut c = scn.clone();
                match &mut c.events[i] {
                    Ev::Open { text, .. } | Ev::Change { text, .. } => *text = cand,
                    _ => {}
                }
                if try_candidate(&c, &decs, budget) {
                    scn = c;
                    progress = true;
                    break;
                }
            }
        }
        // 5. unused project files
        let used: String = scn.events.iter().map(|e| match e {
            Ev::Open { text, .. } | Ev::Change { text, .. } => text.clone(),
            _ => String::new(),
        }).collect::<Vec<_>>().join("\n");
        let before = scn.files.len();
        let mut c = scn.clone();
        c.files.retain(|(p, _)| {
            let stem = p.trim_end_matches(".incn").rsplit('/').next().unwrap_or("");
            used.contains(&format!("from {stem} ")) || (stem == "dep2" && used.contains("from dep3 "))
        });
        if c.files.len() < before && try_candidate(&c, &decs, budget) {
            scn = c;
            progress = true;
        }
    }
    (scn, decs)
}

fn shape_of(scn: &Scenario) -> String {
    let mut parts = Vec::new();
    for d in 0..scn.docs.len() {
        let s: Vec<&str> = scn
            .events
            .iter()
            .filter(|e| e.doc() == d)
            .map(|e| match e {
                Ev::Open { .. } => "O",
                Ev::Change { .. } => "C",
                Ev::Close { .. } => "X",
                Ev::Req { .. } => "R",
            })
            .collect();
        if !s.is_empty() {
            parts.push(format!("{}:{}", DOC_LETTERS[d], s.join("")));
        }
    }
    parts.join(";")
}

// ------------------------------------------------------------------------------------------------ batch driver

fn budget_runs(t: Tier) -> u64 {
    match t {
        Tier::Quick => simcore::scaled(60_000),
        Tier::Thorough => simcore::scaled(1_500_000),
    }
}

fn worker_main(args: &[String], spec: par::WorkerSpec) {
    par::install_quiet_panic_hook();
    let root = simcore::root_seed(args);
    let runs: u64 = simcore::arg_value(args, "--runs").and_then(|s| s.parse().ok()).unwrap_or(budget_runs(simcore::tier(args)));
    let fp_dir = simcore::arg_value(args, "--fp-dir").unwrap_or_default();
    let scratch = lsp::scratch_root(&format!("c18-w{}", spec.index));
    let dir = scratch.join("p");
    let mut viol: Vec<Value> = Vec::new();
    let mut counters: BTreeMap<String, u64> = BTreeMap::new();
    let mut fps: Vec<u64> = Vec::new();
    let mut workload_fps: BTreeSet<u64> = BTreeSet::new();
    let mut samples: Vec<Value> = Vec::new();
    let mut done = 0u64;
    let mut watchdog_hit = false;
    let mut bump = |c: &mut BTreeMap<String, u64>, k: &str, n: u64| *c.entry(k.to_string()).or_insert(0) += n;
    let mut i = spec.index;
    while i < runs {
        let seed = mix(root, PROPERTY, i);
        let (scn, st) = gen_scenario(seed);
        let stname = st.name.clone();
        let wfp = fnv(shape_of(&scn).as_bytes());
        let rep = run_once(scn, RunMode::Random(seed, st), dir.clone());
        done += 1;
        match rep {
            Ok(rep) => {
                let overlap = rep.reach.in_while_blocked > 0;
                bump(&mut counters, "runs_with_handler_overlap", overlap as u64);
                bump(&mut counters, "runs_with_publish_order_ne_version_order", rep.publish_out_of_order as u64);
                bump(&mut counters, "fault_stalled_consumer_fired", rep.reach.stalls);
                bump(&mut counters, "fault_short_write_fired", rep.reach.short_writes);
                bump(&mut counters, "fault_short_read_fired", rep.reach.short_reads);
                bump(&mut counters, "fault_partial_frame_delivered", rep.reach.partial_frames);
                bump(&mut counters, "fault_multi_frame_burst_delivered", rep.reach.multi_frame);
                bump(&mut counters, "input_released_while_writer_stalled", rep.reach.in_while_blocked);
                bump(&mut counters, "pipe_events", rep.reach.decisions);
                bump(&mut counters, "executor_steps", rep.reach.steps);
                bump(&mut counters, &format!("strategy_{stname}"), 1);
                if overlap {
                    fps.push(rep.interleaving_fp);
                    workload_fps.insert(wfp);
                }
                if samples.len() < 2 && overlap {
                    samples.push(json!({"run_index": i, "seed": seed, "strategy": stname, "trace": rep.summary}));
                }
                for f in &rep.findings {
                    viol.push(json!({"index": i, "seed": seed, "class": f.class, "detail": f.detail}));
                }
            }
            Err(p) if par::is_watchdog(&p) => {
                // a synchronous infinite loop inside one poll: the abandoned thread keeps spinning, so this worker stops here
                viol.push(json!({"index": i, "seed": seed, "class": "no-convergence", "detail": format!("the server did not return from a single poll: {p}")}));
                watchdog_hit = true;
            }
            Err(p) => {
                viol.push(json!({"index": i, "seed": seed, "class": "crash", "detail": format!("harness thread panicked: {p}")}));
            }
        }
        if watchdog_hit {
            break;
        }
        i += spec.count;
    }
    let _ = std::fs::remove_dir_all(&scratch);
    // interleaving fingerprints go to a side file (they can be millions)
    if !fp_dir.is_empty() {
        let mut bytes = Vec::with_capacity(fps.len() * 8);
        for f in &fps {
            bytes.extend_from_slice(&f.to_le_bytes());
        }
        let _ = std::fs::write(Path::new(&fp_dir).join(format!("fp-{}.bin", spec.index)), bytes);
    }
    par::emit_worker_result(&json!({
        "runs": done,
        "violations": viol,
        "counters": counters,
        "workloads": workload_fps.iter().map(|x| format!("{x:x}")).collect::<Vec<_>>(),
        "samples": samples,
        "stopped_by_watchdog": watchdog_hit,
    }));
    if watchdog_hit {
        std::process::exit(0);
    }
}

fn c18_main(args: &[String]) {
    if let Some(spec) = par::worker_spec(args) {
        worker_main(args, spec);
        return;
    }
    let t0 = std::time::Instant::now();
    par::install_quiet_panic_hook();
    let tier = simcore::tier(args);
    let root = simcore::root_seed(args);
    let runs: u64 = simcore::arg_value(args, "--runs").and_then(|s| s.parse().ok()).unwrap_or(budget_runs(tier));
    let nw = par::nworkers(args);
    let scratch = lsp::scratch_root("c18-parent");
    let mut wargs = args.to_vec();
    wargs.push("--fp-dir".into());
    wargs.push(scratch.to_string_lossy().to_string());
    let results = par::run_workers(&wargs, nw);
    let mut total = 0u64;
    let mut counters: BTreeMap<String, u64> = BTreeMap::new();
    let mut viols: Vec<(u64, u64, String, String)> = Vec::new();
    let mut workloads: BTreeSet<String> = BTreeSet::new();
    let mut samples: Vec<Value> = Vec::new();
    for r in &results {
        total += r["runs"].as_u64().unwrap_or(0);
        report::add_counters(&mut counters, &r["counters"]);
        for v in r["violations"].as_array().cloned().unwrap_or_default() {
            viols.push((
                v["index"].as_u64().unwrap_or(0),
                v["seed"].as_u64().unwrap_or(0),
                v["class"].as_str().unwrap_or("").to_string(),
                v["detail"].as_str().unwrap_or("").to_string(),
            ));
        }
        for w in r["workloads"].as_array().cloned().unwrap_or_default() {
            workloads.insert(w.as_str().unwrap_or("").to_string());
        }
        samples.extend(r["samples"].as_array().cloned().unwrap_or_default());
    }
    samples.sort_by_key(|x| x["run_index"].as_u64().unwrap_or(u64::MAX));
    samples.truncate(3);
    // distinct interleavings
    let mut fps: Vec<u64> = Vec::new();
    for k in 0..nw {
        if let Ok(b) = std::fs::read(scratch.join(format!("fp-{k}.bin"))) {
            for c in b.chunks_exact(8) {
                fps.push(u64::from_le_bytes([c[0], c[1], c[2], c[3], c[4], c[5], c[6], c[7]]));
            }
        }
    }
    fps.sort_unstable();
    fps.dedup();
    let distinct_interleavings = fps.len() as u64;

    // violations: confirm + minimise the first few of every class
    viols.sort();
    let mut by_class: BTreeMap<String, Vec<(u64, u64, String)>> = BTreeMap::new();
    for (i, s, c, d) in &viols {
        by_class.entry(c.clone()).or_default().push((*i, *s, d.clone()));
    }
    let dir = scratch.join("p");
    let mut out_viol: Vec<Violation> = Vec::new();
    let mut class_counts: BTreeMap<String, u64> = BTreeMap::new();
    for (class, list) in &by_class {
        class_counts.insert(class.clone(), list.len() as u64);
        let mut seen_runs = BTreeSet::new();
        let mut taken = 0;
        for (idx, seed, detail) in list {
            if !seen_runs.insert(*idx) {
                continue;
            }
            if taken >= 2 {
                break;
            }
            taken += 1;
            let (scn, st) = gen_scenario(*seed);
            // re-run from the seed to obtain the explicit decision trace, then confirm that the trace alone reproduces it
            let first = run_once(scn.clone(), RunMode::Random(*seed, st.clone()), dir.clone());
            if let Err(e) = &first {
                if par::is_watchdog(e) {
                    // no decision trace exists for a run that never returned: the replay re-runs the seeded schedule
                    out_viol.push(Violation {
                        property: PROPERTY.into(),
                        class: class.clone(),
                        fingerprint: format!("{}|hang-in-poll|{}", class, shape_of(&scn)),
                        seed: *seed,
                        detail: format!("{e}\n  history: {:?}\n  original run index {idx}: {detail}", scn.events.iter().map(|e| e.short()).collect::<Vec<_>>()),
                        replay: json!({"engine": "lspsim", "expect_class": class, "scenario": scn, "decisions": [], "random_schedule": {"seed": seed, "strategy": st}}),
                    });
                    break;
                }
            }
            if !has_class(&first, class) {
                simcore::harness_error(&format!("run {idx} (seed {seed}) did not reproduce class {class} when re-run from its seed: nondeterminism in the simulator"));
            }
            let decs = first.as_ref().map(|r| r.decisions.clone()).unwrap_or_default();
            let second = run_once(scn.clone(), RunMode::Replay(decs.clone()), dir.clone());
            if !has_class(&second, class) {
                simcore::harness_error(&format!("run {idx} (seed {seed}): explicit trace did not reproduce class {class}"));
            }
            let mut budget = if tier == Tier::Quick { 600 } else { 3000 };
            let (mscn, mdecs) = minimise(scn, decs, class, &dir, &mut budget);
            let fin = run_once(mscn.clone(), RunMode::Replay(mdecs.clone()), dir.clone());
            let mdetail = match &fin {
                Ok(r) => r.findings.iter().find(|f| &f.class == class).map(|f| f.detail.clone()).unwrap_or_default(),
                Err(e) => e.clone(),
            };
            let fingerprint = format!("{}|{}", class, shape_of(&mscn));
            out_viol.push(Violation {
                property: PROPERTY.into(),
                class: class.clone(),
                fingerprint,
                seed: *seed,
                detail: format!(
                    "{mdetail}\n  minimised history: {:?}\n  pipe events: {:?}\n  original run index {idx}: {detail}\n  runs in this class: {}",
                    mscn.events.iter().map(|e| e.short()).collect::<Vec<_>>(),
                    mdecs,
                    list.len()
                ),
                replay: json!({"engine": "lspsim", "expect_class": class, "scenario": mscn, "decisions": mdecs}),
            });
        }
    }
    let _ = std::fs::remove_dir_all(&scratch);
    let wall = t0.elapsed().as_secs_f64();
    let violating_runs: BTreeSet<u64> = viols.iter().map(|v| v.0).collect();
    let coverage = json!({
        "evaluations": total,
        "distinct_nontrivial": distinct_interleavings,
        "rule": "one evaluation = one seeded simulated session of the real tower-lsp serve loop + IncanLanguageServer: a generated client history (1-3 documents, open/change/close/re-open, 0-4 on-disk imports and 0-120 uniquely marked errors per version, unparsable and truncated versions, interleaved requests) under a seeded schedule of pipe-readiness events (IN n bytes readable / OUT n bytes writable). Non-trivial = at least one client message was released while the stdout writer was stalled, i.e. a later handler started while an earlier one was suspended at an await point; distinct = distinct FNV hash of (pipe-event sequence, sequence of server outputs).",
        "samples": samples,
        "runs_per_hour": if wall > 0.0 { (total as f64 / wall * 3600.0) as u64 } else { 0 },
        "simulated_time": format!("{} executor steps and {} pipe events (the system has no timers; simulated time is counted in steps)", counters.get("executor_steps").copied().unwrap_or(0), counters.get("pipe_events").copied().unwrap_or(0)),
        "fault_kinds_fired": {
            "stalled_consumer (writer found no credit)": counters.get("fault_stalled_consumer_fired"),
            "short_write": counters.get("fault_short_write_fired"),
            "short_read": counters.get("fault_short_read_fired"),
            "partial_frame_delivery": counters.get("fault_partial_frame_delivered"),
            "multi_frame_burst": counters.get("fault_multi_frame_burst_delivered"),
            "input_released_while_writer_stalled": counters.get("input_released_while_writer_stalled"),
        },
        "reach_probes": {
            "runs_with_handler_overlap": counters.get("runs_with_handler_overlap"),
            "runs_with_publish_order_ne_version_order": counters.get("runs_with_publish_order_ne_version_order"),
            "distinct_history_shapes_among_overlapping_runs": workloads.len(),
        },
        "strategies": counters.iter().filter(|(k, _)| k.starts_with("strategy_")).map(|(k, v)| (k.clone(), json!(v))).collect::<BTreeMap<_, _>>(),
        "violating_runs": violating_runs.len(),
        "violation_classes": class_counts,
        "workers": nw,
        "real_vs_stub": {
            "real": ["tower-lsp 0.17 Server::serve (codec, router, buffer_unordered(4), client channel)", "incan::lsp::IncanLanguageServer", "tokio::sync::RwLock", "lexer/parser/typechecker/import resolution reading a real tmpfs project tree"],
            "stub": ["editor (scripted client model)", "stdin/stdout (simulated pipes with byte budgets)", "executor (single-threaded, polls the one serve future)"],
            "not_exercised": ["#[tokio::main] wrapper in src/bin/lsp.rs"]
        }
    });
    report::finish(Outcome {
        property: PROPERTY.into(),
        tier,
        seed: root,
        level: "exploration".into(),
        coverage,
        assumptions: vec![
            "explores exactly the schedules the tower-lsp 0.17 transport can produce from I/O timing on stdin/stdout; yields caused by tokio's cooperative budget inside a runtime are not modelled".into(),
            "bounds: <=3 documents, <=8 versions per session, <=2 sessions, <=4 on-disk dependency files".into(),
            "a clean batch is evidence, not proof (seeded sampling)".into(),
        ],
        wall_s: wall,
        violations: out_viol,
        occurrences: BTreeMap::new(),
    });
}

fn replay_main(args: &[String]) {
    par::install_quiet_panic_hook();
    let Some(path) = args.get(2) else { simcore::harness_error("usage: lspsim replay <file>") };
    let text = std::fs::read_to_string(path).unwrap_or_else(|e| simcore::harness_error(&format!("read {path}: {e}")));
    let doc: Value = serde_json::from_str(&text).unwrap_or_else(|e| simcore::harness_error(&format!("parse {path}: {e}")));
    let rp = &doc["replay"];
    let scn: Scenario = serde_json::from_value(rp["scenario"].clone()).unwrap_or_else(|e| simcore::harness_error(&format!("scenario: {e}")));
    let decs: Vec<Dec> = serde_json::from_value(rp["decisions"].clone()).unwrap_or_else(|e| simcore::harness_error(&format!("decisions: {e}")));
    let class = rp["expect_class"].as_str().unwrap_or("").to_string();
    let scratch = lsp::scratch_root("c18-replay");
    let mode = match rp.get("random_schedule") {
        Some(rs) if rs.is_object() => {
            let st: Strategy = serde_json::from_value(rs["strategy"].clone()).unwrap_or_else(|e| simcore::harness_error(&format!("strategy: {e}")));
            RunMode::Random(rs["seed"].as_u64().unwrap_or(0), st)
        }
        _ => RunMode::Replay(decs),
    };
    let rep = run_once(scn, mode, scratch.join("p"));
    let _ = std::fs::remove_dir_all(&scratch);
    match &rep {
        Ok(r) => println!("{}", serde_json::to_string_pretty(&r.summary).unwrap_or_default()),
        Err(e) => println!("instance panicked: {e}"),
    }
    if has_class(&rep, &class) {
        println!("VIOLATION property={PROPERTY} replay={path}");
        println!("REPRODUCED class={class}");
        std::process::exit(1);
    }
    println!("NOT-REPRODUCED class={class} (the tree no longer fails this replay)");
    std::process::exit(0);
}

fn show_main(args: &[String]) {
    par::install_quiet_panic_hook();
    let root = simcore::root_seed(args);
    let idx: u64 = simcore::arg_value(args, "--index").and_then(|s| s.parse().ok()).unwrap_or(0);
    let seed = mix(root, PROPERTY, idx);
    let (scn, st) = gen_scenario(seed);
    println!("strategy: {st:?}");
    if simcore::arg_flag(args, "--texts") {
        for e in &scn.events {
            if let Ev::Open { text, tag, .. } | Ev::Change { text, tag, .. } = e {
                println!("---- {tag}\n{text}");
            }
        }
    }
    let scratch = lsp::scratch_root("c18-show");
    let rep = run_once(scn, RunMode::Random(seed, st), scratch.join("p"));
    let _ = std::fs::remove_dir_all(&scratch);
    match rep {
        Ok(r) => {
            println!("{}", serde_json::to_string_pretty(&r.summary).unwrap_or_default());
            println!("reach: {:?}", r.reach);
        }
        Err(e) => println!("panicked: {e}"),
    }
}

/// Determinism self-test helper: one line per run with a digest of everything observable.
fn digest_main(args: &[String]) {
    par::install_quiet_panic_hook();
    let root = simcore::root_seed(args);
    let runs: u64 = simcore::arg_value(args, "--runs").and_then(|s| s.parse().ok()).unwrap_or(500);
    let spec = par::worker_spec(args).unwrap_or(par::WorkerSpec { index: 0, count: 1 });
    let scratch = lsp::scratch_root(&format!("c18-digest-{}", spec.index));
    let mut i = spec.index;
    while i < runs {
        let seed = mix(root, PROPERTY, i);
        let (scn, st) = gen_scenario(seed);
        let rep = run_once(scn, RunMode::Random(seed, st), scratch.join("p"));
        match rep {
            Ok(r) => {
                let s = r.summary.to_string().replace(&scratch.to_string_lossy().to_string(), "<ROOT>");
                println!("{i} {:016x} {:016x} {}", r.interleaving_fp, fnv(s.as_bytes()), r.findings.len());
            }
            Err(e) => println!("{i} panic {e}"),
        }
        i += spec.count;
    }
    let _ = std::fs::remove_dir_all(&scratch);
}

fn main() {
    let args: Vec<String> = std::env::args().collect();
    match args.get(1).map(|s| s.as_str()) {
        Some("c18") => c18_main(&args),
        Some("replay") => replay_main(&args),
        Some("show") => show_main(&args),
        Some("digest") => digest_main(&args),
        _ => simcore::harness_error("usage: lspsim c18|replay|show|digest ..."),
    }
}
