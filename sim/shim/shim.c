/* LD_PRELOAD shim for real subprocesses of the tree under test (cross-check of the in-process seams).
 * VERIF_HASH_SEED=<u64>      std's RandomState keys come from this stream instead of the kernel
 * VERIF_CLOCK_OFFSET_S=<i64> CLOCK_REALTIME is shifted by this many seconds (host clock differs between "machines")
 * Without the variables the calls pass through to the kernel unchanged. */
#define _GNU_SOURCE
#include <stddef.h>
#include <stdlib.h>
#include <sys/types.h>
#include <sys/syscall.h>
#include <time.h>
#include <unistd.h>

static unsigned long long st;
static int inited;

ssize_t getrandom(void *buf, size_t len, unsigned int flags) {
    const char *s = getenv("VERIF_HASH_SEED");
    if (!s) return syscall(SYS_getrandom, buf, len, flags);
    if (!inited) { st = strtoull(s, 0, 10); inited = 1; }
    unsigned char *b = buf;
    for (size_t i = 0; i < len; i++) {
        st = st * 6364136223846793005ULL + 1442695040888963407ULL;
        b[i] = (unsigned char)(st >> 33);
    }
    return (ssize_t)len;
}

int clock_gettime(clockid_t clk, struct timespec *ts) {
    int r = (int)syscall(SYS_clock_gettime, clk, ts);
    const char *o = getenv("VERIF_CLOCK_OFFSET_S");
    if (r == 0 && o && clk == CLOCK_REALTIME) ts->tv_sec += atoll(o);
    return r;
}
