#!/usr/bin/env python3
"""Regenerates /verif/MANIFEST.json (kept valid at all times; run after adding or changing a check)."""
import json, os
NA = {
"C01":"pure translation property of program text (compiled behaviour vs source semantics): no schedule, clock, fault, process boundary or second party in it; needs differential execution / translation validation, not a simulator (DESIGN.md §6)",
"C02":"checker/emitter/rustc agreement on a source text: pure function of the text, nothing for a scheduler or fault injector to control (DESIGN.md §6)",
"C03":"rejection of ill-typed programs with a located diagnostic: pure function of the text (DESIGN.md §6)",
"C04":"Python-style arithmetic kernels: pure functions over i64/f64 pairs (DESIGN.md §6)",
"C05":"indexing/slicing/range: pure functions over sequences and integers; termination included, no scheduler involved (DESIGN.md §6)",
"C06":"const evaluation vs run time: two pure evaluators of the same expression (DESIGN.md §6)",
"C07":"numeric result types: finite table over pure policy functions (DESIGN.md §6)",
"C08":"formatting preserves meaning: format_source is a pure function of the text (DESIGN.md §6)",
"C10":"layout/comments do not change the parse: pure function of the text (DESIGN.md §6)",
"C11":"front-end totality and diagnostic well-formedness: totality of pure functions over UTF-8 inputs; panics met inside simulated runs are still reported under the property being run (DESIGN.md §6)",
"C13":"any legal name is safe: pure function of the program under renaming (DESIGN.md §6)",
"C15":"Cargo.toml declares exactly what is needed, pinned: pure function of the program; only its ordering stability is host-dependent and that is C12 (DESIGN.md §6)",
"C17":"validated newtypes: pure lowering rule plus run-time behaviour of the compiled program (DESIGN.md §6)",
"C19":"editor positions vs byte offsets: pure arithmetic on a string (DESIGN.md §6)",
"C20":"derived JSON/equality/ordering/hashing: behaviour of compiled programs on values; pure (DESIGN.md §6)",
}
PENDING = {
"C12":"in progress in this round (engine worldsim); not yet claimed",
"C14":"in progress in this round (engines worldsim + lspsim); not yet claimed",
"C16":"in progress in this round (engine worldsim with simulated cargo); not yet claimed",
"C09":"in progress in this round (engine worldsim, file/exit-status clauses only); not yet claimed",
}
CHECKS = {
"C18": dict(
  engine="lspsim",
  level=("exploration","Seeded search over client histories x handler interleavings x I/O stalls of the real tower-lsp serve loop and the real IncanLanguageServer inside a deterministic single-threaded simulator; judged at idle against a spec map (uri -> latest text) and a fresh sequential reference server. The property quantifies over schedules and histories, which only sampling under a controlled scheduler reaches; a clean batch is evidence, not proof.","§3.1"),
  note="Trusted: the simulated pipes and executor (one future, polled to quiescence; the order of pipe-readiness events is the schedule), the editor model, tower-lsp 0.17 as the transport whose schedules are explored. Not modelled: tokio coop-budget yields inside a runtime. Bounds: <=3 documents, <=8 versions per session.",
  technique="deterministic simulation with fault injection: seeded pipe-readiness scheduler (stalled consumer, short reads/writes, partial frames, bursts) over the real server; reference-model + sequential-refinement oracles; minimised replay files"),
"C12": dict(
  engine="worldsim",
  level=("exploration","Seeded search over programs x simulated process instances (hash-key stream via the getrandom seam, environment, working directory / tree location, simulated clock, readdir order): the real check/build/format pipeline runs once per world and all observations must be byte-identical.","§3.2"),
  note="Trusted: the libc interposition seams (getrandom, clock_gettime) and that the compiler keeps no process-global mutable state between in-process worlds (cross-checked against real subprocesses under an LD_PRELOAD shim in the thorough tier); cargo is a stub that succeeds.",
  technique="deterministic simulation: N-world differential execution under controlled hash seeds, env, cwd, clock and directory order; minimised two-world replay files"),
"C14": dict(
  engine="worldsim+lspsim",
  level=("exploration","Seeded generation of project trees x import spellings x pub placements x file-system faults; per import edge the file loaded by the command-line compiler must equal the file loaded by the language server (real serve loop in the simulator), private items must be rejected, cycles/missing modules must end in a diagnostic within a step/time bound.","§3.3"),
  note="Trusted: tmpfs tree construction, unique per-file markers identifying which file a party loaded, the visibility reference model (set of pub names per file).",
  technique="deterministic simulation: two-party agreement (CLI vs language server) over generated trees with file-system faults, liveness bound in executor steps"),
"C16": dict(
  engine="worldsim",
  level=("fault_enumeration","The real `incan test` process runs on generated test trees against a simulated cargo whose behaviour (model of cargo test, told verdicts, spawn failure, build failure, death by signal, garbage output) is enumerated per scenario; an executable model of the documented runner semantics is the oracle.","§3.4"),
  note="Trusted: the simulated cargo (calibrated against real cargo test on a few scenarios in the thorough tier) and the ~60-line runner model.",
  technique="deterministic simulation with fault injection at the process boundary: simulated cargo with enumerated fault modes, executable reference model of the runner"),
"C09": dict(
  engine="worldsim",
  level=("exploration","The real `incan fmt [--check|--diff]` processes run as op sequences on generated tmpfs trees with file-system faults; tree snapshots around every op and exit codes are the oracle. Only the file/exit-status clauses are decided here; fmt(fmt(x))==fmt(x) for all texts is a pure function and is only sampled.","§3.5"),
  note="Trusted: snapshotting (paths, bytes, inode, mtime), the corpus of programs placed in the trees.",
  technique="deterministic simulation: op-sequence histories over simulated file trees with injected FS faults and snapshot invariants"),
}
claimed = [c for c in ["C18","C12","C14","C16","C09"] if os.path.exists(f"/verif/.claimed/{c}")]
checks=[]
for c in claimed:
    d=CHECKS[c]
    checks.append({
      "property_id":c,
      "quick_cmd":f"./check {c} --tier quick",
      "thorough_cmd":f"./check {c} --tier thorough",
      "evidence_file":f"/verif/evidence/{c}.json",
      "replay_cmd_template":"./check replay {path}",
      "engine":d["engine"],
      "level_claimed":{"category":d["level"][0],"text":d["level"][1],"design_ref":d["level"][2]},
      "level_note":d["note"],
      "technique":d["technique"],
    })
na=[{"property_id":k,"reason":v} for k,v in NA.items()]
na+=[{"property_id":k,"reason":v} for k,v in PENDING.items() if k not in claimed]
m={
 "version":1,
 "setup_cmd":"./check setup",
 "hooks":{"guard":"incan_verif","enable":"none needed: every seam is taken without editing /repo (generic LSP transport parameters, libc getrandom/clock_gettime interposition, PATH lookup of cargo, tmpfs trees); no source commit uses the guard","baseline_off_cmd":"cd /repo && cargo test --workspace --no-fail-fast --offline","source_commits":[],"add_only":True},
 "engines":[
  {"name":"lspsim","path":"sim/src/lsp.rs + sim/src/bin/lspsim.rs","serves_properties":["C18","C14"],"kind_free_text":"deterministic single-threaded executor + simulated stdio pipes around the real tower-lsp serve loop and IncanLanguageServer"},
  {"name":"worldsim","path":"sim/src/bin/worldsim.rs","serves_properties":["C12","C14","C16","C09"],"kind_free_text":"simulated process instances (hash keys, env, cwd, clock, tmpfs trees, readdir order) + simulated cargo"},
 ],
 "checks":checks,
 "notes":"Deterministic simulation with fault injection; see DESIGN.md. Repairs of genuine defects are 'fix:' commits in /repo, listed in known_findings.json with status fixed.",
 "not_applicable":na,
}
json.dump(m,open("/verif/MANIFEST.json","w"),indent=1)
print("claimed:",claimed)
