#!/bin/bash
# Apply a seeded change to /repo, run the given checks (quick tier) against it, and ALWAYS restore /repo afterwards.
#   tools/try_mutant.sh seeded/<id> C18 [C12 ...]
# Prints one line per check: "<check> exit=<code> <first VIOLATION/HARNESS line>". Evidence files written by these runs
# describe the mutated tree; re-run the checks on the clean tree before committing evidence.
set -u
d=$1; shift
cd /verif || exit 2
if ! git -C /repo diff --quiet; then echo "refusing: /repo has uncommitted changes"; exit 2; fi
git -C /repo apply "$(realpath "$d")/patch.diff" || { echo "patch does not apply"; exit 2; }
trap 'git -C /repo checkout -- . ; git -C /repo clean -fdq -- src crates 2>/dev/null' EXIT
for c in "$@"; do
    start=$(date +%s)
    ./check "$c" --tier quick > "/tmp/mut-$(basename $d)-$c.out" 2>&1
    code=$?
    echo "$c exit=$code ($(( $(date +%s) - start )) s) $(grep -E '^VIOLATION|^HARNESS' /tmp/mut-$(basename $d)-$c.out | head -2 | tr '\n' ' ')"
done
