#!/bin/bash
# Determinism self-test of the simulators (DESIGN.md §2.4): every engine is run twice per configuration, in separate
# processes, at different worker counts, and everything observable is diffed (not only verdicts).
#   lspsim : one digest line per run = (interleaving fingerprint, hash of the full trace summary, #findings)
#   worldsim checks: normalised evidence (all counters, fingerprints, samples; wall-clock fields removed)
# Exit 0 = identical everywhere, 2 = a divergence (harness defect, never a property violation).
set -u
BIN=/verif/target/release
N=${1:-3000}
tmp=$(mktemp -d /dev/shm/ivf-selftest-XXXXXX)
trap 'rm -rf "$tmp"' EXIT
fail=0

digest() { # workers outfile seed
    local w=$1 out=$2 seed=$3
    : > "$out.parts"
    for k in $(seq 0 $((w-1))); do
        $BIN/lspsim digest --runs $N --seed $seed --worker $k/$w >> "$out.parts.$k" &
    done
    wait
    cat "$out".parts.* | sort -n > "$out"
    rm -f "$out".parts*
}
for seed in 1 2; do
    digest 1 $tmp/l1a.$seed $seed
    digest 16 $tmp/l16.$seed $seed
    digest 7 $tmp/l7.$seed $seed
    for f in l16 l7; do
        if ! cmp -s $tmp/l1a.$seed $tmp/$f.$seed; then
            echo "SELFTEST lspsim: divergence between 1 worker and ${f#l} workers (seed $seed):"
            diff $tmp/l1a.$seed $tmp/$f.$seed | head -5
            fail=1
        fi
    done
    echo "lspsim seed $seed: $(wc -l < $tmp/l1a.$seed) runs identical at 1, 7 and 16 workers"
done

norm() { python3 -c '
import json,sys
d=json.load(open(sys.argv[1])); d.pop("wall_s",None)
c=d["coverage"]; c.pop("runs_per_hour",None); c.pop("workers",None)
print(json.dumps(d,sort_keys=True,indent=0))' "$1"; }
export VERIF_BUDGET_PERMILLE=200
for c in C12 C14 C16 C09; do
    for w in 16 5; do
        cp /verif/evidence/$c.json $tmp/$c.keep 2>/dev/null
        $BIN/worldsim $c --tier quick --seed 3 --workers $w > $tmp/$c.$w.out 2>&1
        norm /verif/evidence/$c.json > $tmp/$c.$w.norm
        cp $tmp/$c.keep /verif/evidence/$c.json 2>/dev/null
    done
    if cmp -s $tmp/$c.16.norm $tmp/$c.5.norm; then
        echo "worldsim $c: evidence identical at 16 and 5 workers"
    else
        echo "SELFTEST worldsim $c: divergence between 16 and 5 workers:"
        diff $tmp/$c.16.norm $tmp/$c.5.norm | head -10
        fail=1
    fi
done
[ $fail = 0 ] && { echo "SELFTEST OK"; exit 0; }
exit 2
